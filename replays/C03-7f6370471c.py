#!/venv/bin/python
"""replay for a violation of C03
failed obligations (verifier output):
  RandomKaryPartition.make_children:post:TreeWF.kids.5 : solver=None status=unknown detail=cvc5 interrupted by timeout.
 path=<45F>
"""
import sys
sys.path.insert(0, "/repo")
print('no failing input was found for the failed obligations listed in the docstring of this file')
print(__doc__)
sys.exit(1)
