"""Sidecar contract registry.  Contracts are Python-syntax strings attached to the qualified
names of the real functions in /repo; nothing here is executable code of the library."""


class Clause:
    def __init__(self, label, text, props=None, witness=None):
        self.label, self.text, self.props = label, text, set(props or ())
        self.witness = witness or {}     # existential variables: name -> (type, code-level expression giving the witness)
        self.cases = None                # proof by cases under a universal prefix (see by_cases)

    def __repr__(self):
        return "Clause(%s)" % self.label


def _clauses(xs, default_props):
    out = []
    for x in xs or ():
        if isinstance(x, Clause):
            if not x.props:
                x.props = set(default_props)
            out.append(x)
        elif isinstance(x, str):
            out.append(Clause("c%d" % len(out), x, default_props))
        else:
            lab, text = x[0], x[1]
            props = x[2] if len(x) > 2 else default_props
            if isinstance(props, str):
                props = props.split()
            out.append(Clause(lab, text, props, x[3] if len(x) > 3 else None))
    for c in out:
        if "NodeInit" in c.text:
            # what a freshly constructed cell looks like matters to C06 (zero pulls, infinite index) and C07 (sentinel reward)
            c.props = set(c.props) | {"NI", "C06", "C07"}
    return out


def by_cases(label, body, gens, cases, props=""):
    """clause `all(BODY GENS)` whose proof obligation is split by cases: for every case C_i the obligation
    all(implies(C_i, BODY) GENS), plus the cover obligation all((C_1) or ... or (C_n) GENS).
    (forall x. C1=>G) & (forall x. C2=>G) & (forall x. C1 or C2)  |-  forall x. G   is plain logic.)"""
    c = Clause(label, "all(%s %s)" % (body, gens), props.split() if isinstance(props, str) else props)
    c.cases = (body, gens, list(cases))
    return c


class Contract:
    def __init__(self, qname, **kw):
        self.qname = qname
        self.props = set(kw.get("props", "").split()) if isinstance(kw.get("props", ""), str) else set(kw.get("props"))
        self.params = dict(kw.get("params", {}))
        self.returns = kw.get("returns")
        self.locals = dict(kw.get("locals", {}))
        self.requires = _clauses(kw.get("requires"), self.props)
        self.ensures = _clauses(kw.get("ensures"), self.props)
        self.modifies = list(kw.get("modifies", []))
        self.raises = dict(kw.get("raises", {}))        # exc name -> pre-state condition text (raises iff)
        self.N = list(kw.get("N", [None]))
        self.inline = kw.get("inline", False)
        self.abstract = kw.get("abstract", False)
        self.implements = kw.get("implements")          # qname of an abstract contract whose clauses are inherited
        self.pure = kw.get("pure", False)
        self.verify = kw.get("verify", True)            # False: assumed contract (trusted), listed in evidence
        self.ghost_after = list(kw.get("ghost_after", []))
        self.closed_after_calls = kw.get("closed_after_calls", False)   # restate the closed-heap facts after every callee that allocates
        self.dictstore = kw.get("dictstore", "either")    # "update": every d[k] = v overwrites (obligation); "insert": adds a new key
        self.note = kw.get("note", "")
        self.env = dict(kw.get("env", {}))
        self.nla = kw.get("nla", "native")                # "uf": products/quotients of two symbolic reals are uninterpreted (sound abstraction)
        self.anyargs = kw.get("anyargs", False)
        self.reveal = list(kw.get("reveal", []))
        self.defines = kw.get("defines")                  # name of the spec function this pure function is the definition of
        self.axioms = list(kw.get("axioms", []))          # opt-in axiom groups, e.g. "rpow-arith"
        self.N_light = kw.get("N_light", False)          # units for N other than the first only keep node-constructor obligations
        self.rng = kw.get("rng", True)                   # False: any numpy random call inside is an obligation failure              # extra class variables, e.g. {"$P": "BinaryPartition"}


class Loop:
    def __init__(self, qname, ordinal, **kw):
        self.qname, self.ordinal = qname, ordinal
        self.props = set(kw.get("props", "").split())
        self.invariants = _clauses(kw.get("invariants"), self.props)
        self.decreases = kw.get("decreases")
        self.bounded = kw.get("bounded")                # int: unroll instead of cutting (labelled bounded)
        self.var = kw.get("var")
        self.modifies = kw.get("modifies")              # None: the function's frame; list: pre-loop objects the loop may write                        # name under which the hidden iteration counter is visible


class Pred:
    def __init__(self, name, params, text, cls=None):
        self.name, self.params, self.text, self.cls = name, [p.strip() for p in params.split(",") if p.strip()], text, cls


class Registry:
    def __init__(self):
        self.contracts = {}
        self.loops = {}
        self.preds = {}       # name -> list[Pred]
        self.units = {}       # property -> list of (qname)
        self.axioms = []      # callables(unit) -> list of z3 facts
        self.assumptions = {}  # property -> list[str]
        self.trusted = {}
        self.ghost_fields = {}  # name -> type: ghost maps from references, written only by `ghost_after` clauses
        self.syntactic = {}

    def fn(self, qname, **kw):
        c = Contract(qname, **kw)
        self.contracts[qname] = c
        return c

    def loop(self, qname, ordinal, **kw):
        l = Loop(qname, ordinal, **kw)
        self.loops[(qname, ordinal)] = l
        return l

    def cut(self, qname, after, clauses, props="", strong=False):
        if strong:
            self.strong_cuts = getattr(self, "strong_cuts", set())
            self.strong_cuts.add((qname, after))
        """intermediate assertion: after the statement tagged `after` (e.g. "if#0", "call:expand#0") every clause is
        proved (obligation kind `cut`) and then kept as a lemma for the rest of the path"""
        self.cuts = getattr(self, "cuts", {})
        self.cuts.setdefault((qname, after), []).extend(_clauses(clauses, set(props.split())))

    def assume_lemma(self, qname, after, clauses, why, props=""):
        """an UNCHECKED fact assumed after the statement tagged `after` (a lemma whose proof is outside the contract language);
        every use is reported in the evidence (assumptions / trusted_base) together with `why`"""
        self.lemmas = getattr(self, "lemmas", {})
        self.lemmas.setdefault((qname, after), []).append((_clauses(clauses, set(props.split())), why))

    def opaque(self, name, params, text, ret="real"):
        """spec function kept uninterpreted; its definition (the text) is revealed only in units whose contract lists it
        under `reveal` -- everywhere else only congruence is used, which keeps the VCs small"""
        self.opaques = getattr(self, "opaques", {})
        ps = [tuple(x.strip() for x in p.split(":")) for p in params.split(",")]
        self.opaques[name] = (ps, text, ret)

    def recfun(self, name, params, text, ret="real"):
        """recursive spec function: `text` refers to itself as NAME_z; revealing it unfolds exactly one level per term
        (NAME(x) == body with NAME_z inside, NAME(x) == NAME_z(x)), which avoids matching loops"""
        self.opaque(name, params, text, ret)
        self.opaque(name + "_z", params, None, ret)

    def pred(self, name, params, text, cls=None):
        self.preds.setdefault(name, []).append(Pred(name, params, text, cls))

    def get_contract(self, qname):
        return self.contracts.get(qname)
