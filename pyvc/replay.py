"""Counterexample / replay files for failed obligations.

z3 answers `unknown` on most failing VCs with quantified hypotheses, so the failing input is looked for
by driving the REAL code (rt/search_<prop>.py, run under /venv/bin/python) with the run-time version of the
same contract clauses.  The replay file is a stand-alone script: it rebuilds the history on the real code,
prints the violated clause and exits 1.  If nothing is found the file still names the failed obligations and
carries the solver output, and the VIOLATION line ends with no-failing-input-found.
"""
import os, json, hashlib, subprocess

ROOT = os.path.dirname(os.path.dirname(os.path.abspath(__file__)))


def make_replay(prop, groups, tier, seed):
    os.makedirs(os.path.join(ROOT, "replays"), exist_ok=True)
    sites = sorted(groups)
    h = hashlib.sha256(("|".join(sites)).encode()).hexdigest()[:10]
    path = os.path.join(ROOT, "replays", "%s-%s.py" % (prop, h))
    info = []
    for s in sites:
        for o in groups[s]:
            if isinstance(o, dict):
                info.append("%s : %s" % (s, o.get("detail", "")))
            else:
                info.append("%s : solver=%s status=%s detail=%s path=<%s>" % (s, o.backend, o.status, o.detail, o.trail.strip()))
    body, found = None, False
    searcher = os.path.join(ROOT, "rt", "search_%s.py" % prop)
    if os.path.exists(searcher):
        try:
            budget = "60" if tier == "quick" else "600"
            p = subprocess.run(["/venv/bin/python", searcher, "--seed", str(seed), "--budget", budget, "--sites", json.dumps(sites)],
                               capture_output=True, text=True, timeout=int(budget) + 120, cwd=ROOT)
            last = p.stdout.strip().split("\n")[-1] if p.stdout.strip() else ""
            r = json.loads(last) if last.startswith("{") else {}
            if r.get("found"):
                body, found = r["replay"], True
        except Exception as ex:
            info.append("history search failed to run: %r" % (ex,))
    with open(path, "w") as f:
        f.write("#!/venv/bin/python\n")
        f.write('"""replay for a violation of %s\nfailed obligations (verifier output):\n' % prop)
        for l in info:
            f.write("  " + l.replace('"""', "'''") + "\n")
        f.write('"""\nimport sys\nsys.path.insert(0, __import__("os").environ.get("PYVC_REPO", "/repo"))\n')
        if body:
            f.write(body)
        else:
            f.write("print('no failing input was found for the failed obligations listed in the docstring of this file')\n")
            f.write("print(__doc__)\nsys.exit(1)\n")
    return path, found


def cross_check(prop, seed, budget=150, tag="runtime"):
    """thorough tier: the run-time versions of the contract clauses are evaluated on random histories of the REAL code
    (bounded: `budget` seconds).  Returns (replay path | None, ran?)."""
    searcher = os.path.join(ROOT, "rt", "search_%s.py" % prop)
    if not os.path.exists(searcher):
        return None, False
    try:
        p = subprocess.run(["/venv/bin/python", searcher, "--seed", str(seed), "--budget", str(budget), "--sites", "[]"],
                           capture_output=True, text=True, timeout=budget + 120, cwd=ROOT)
        last = p.stdout.strip().split("\n")[-1] if p.stdout.strip() else ""
        r = json.loads(last) if last.startswith("{") else {}
    except Exception:
        return None, False
    if not r.get("found"):
        return None, True
    os.makedirs(os.path.join(ROOT, "replays"), exist_ok=True)
    path = os.path.join(ROOT, "replays", "%s-%s-%d.py" % (prop, tag, seed))
    with open(path, "w") as f:
        f.write("#!/venv/bin/python\n")
        f.write('"""replay for a violation of %s found by the run-time contract monitor (no proof obligation failed)"""\n' % prop)
        f.write('import sys\nsys.path.insert(0, __import__("os").environ.get("PYVC_REPO", "/repo"))\n')
        f.write(r["replay"])
    return path, True
