"""Numbers: mathematical ints, reals, and the extended reals XR = fin(r) | +inf | -inf.

Assumption A-REAL: finite float arithmetic is exact real arithmetic.
Transcendental functions are uninterpreted with axioms (each a true statement of real analysis).
"""
import z3

_XR = z3.Datatype("XR")
_XR.declare("fin", ("val", z3.RealSort()))
_XR.declare("pinf")
_XR.declare("ninf")
XR = _XR.create()
fin, pinf, ninf, xval = XR.fin, XR.pinf, XR.ninf, XR.val
is_fin, is_pinf, is_ninf = XR.is_fin, XR.is_pinf, XR.is_ninf

I, R, B = z3.IntSort(), z3.RealSort(), z3.BoolSort()

_OI = z3.Datatype("OptInt")          # an `int` local that may also hold None (max_b_node_ind = None)
_OI.declare("onone")
_OI.declare("osome", ("oval", I))
OI = _OI.create()
_OR = z3.Datatype("OptReal")         # a `real` parameter that may also be None (k=None, delta=None)
_OR.declare("rnone")
_OR.declare("rsome", ("rval", R))
OR_ = _OR.create()


def opt_dt(ty):
    """(datatype, none, some, is_none, is_some, val) of an optional scalar type"""
    if ty.k == "int":
        return OI, OI.onone, OI.osome, OI.is_onone, OI.is_osome, OI.oval
    return OR_, OR_.rnone, OR_.rsome, OR_.is_rnone, OR_.is_rsome, OR_.rval


def xr_le(a, b):
    return z3.Or(is_ninf(a), is_pinf(b), z3.And(is_fin(a), is_fin(b), xval(a) <= xval(b)))


def xr_lt(a, b):
    return z3.Not(xr_le(b, a))


def xr_max(a, b):
    return z3.If(xr_le(a, b), b, a)


def xr_min(a, b):
    return z3.If(xr_le(a, b), a, b)


def xr_neg(a):
    return z3.If(is_fin(a), fin(-xval(a)), z3.If(is_pinf(a), ninf, pinf))


def xr_add(a, b):
    """value of a+b; the caller emits the obligation that inf + -inf does not occur"""
    return z3.If(z3.And(is_fin(a), is_fin(b)), fin(xval(a) + xval(b)),
                 z3.If(z3.Or(is_pinf(a), is_pinf(b)), pinf, ninf))


def xr_add_defined(a, b):
    return z3.Not(z3.Or(z3.And(is_pinf(a), is_ninf(b)), z3.And(is_ninf(a), is_pinf(b))))


# ---- uninterpreted real functions ---------------------------------------------------------
ln = z3.Function("u_ln", R, R)
exp_ = z3.Function("u_exp", R, R)
sqrt_ = z3.Function("u_sqrt", R, R)
sin_ = z3.Function("u_sin", R, R)
cos_ = z3.Function("u_cos", R, R)
rpow = z3.Function("rpow", R, R, R)      # x ** y for real y (x > 0), or integer y
pow2 = z3.Function("pow2", I, I)         # 2 ** k, k >= 0
PI = z3.Real("k_pi")
E_ = z3.Real("k_e")


IMUL = z3.Function("imul", I, I, I)


def use_imul(u):
    """product of two symbolic integers, kept uninterpreted (abstraction of *): only the listed facts are used"""
    if "imul" not in u.used:
        u.used.add("imul")
        a, b = z3.Ints("im_a im_b")
        u.bg.append(z3.ForAll([b], z3.And(IMUL(0, b) == 0, IMUL(1, b) == b, IMUL(b, 0) == 0, IMUL(b, 1) == b),
                              qid="imul-01", patterns=[IMUL(0, b), IMUL(1, b), IMUL(b, 0), IMUL(b, 1)]))
        u.bg.append(z3.ForAll([a, b], z3.Implies(z3.And(a >= 0, b >= 0), IMUL(a, b) >= 0), qid="imul-sign", patterns=[IMUL(a, b)]))
        u.bg.append(z3.ForAll([a, b], IMUL(a, b + 1) == IMUL(a, b) + a, qid="imul-succ", patterns=[IMUL(a, b + 1)]))
    return IMUL


I2R = z3.Function("i2r", I, R)


def use_i2r(u):
    """int -> real conversion of a symbolic integer, kept uninterpreted in `nla=uf` units so that equal integers give
    syntactically congruent real terms; only sign facts are available"""
    if "i2r" not in u.used:
        u.used.add("i2r")
        a = z3.Int("ir_a")
        u.bg.append(z3.ForAll([a], z3.And((I2R(a) > 0) == (a > 0), (I2R(a) >= 0) == (a >= 0), (I2R(a) == 0) == (a == 0),
                                          (I2R(a) >= 1) == (a >= 1), (I2R(a) == 1) == (a == 1)),
                              qid="i2r-sign", patterns=[I2R(a)]))
    return I2R


RMUL = z3.Function("rmul", R, R, R)
RDIV = z3.Function("rdiv", R, R, R)


def use_rnl(u):
    """uninterpreted product / quotient of two symbolic reals (abstraction of * and /): sign facts only"""
    if "rnl" not in u.used:
        u.used.add("rnl")
        a, b = z3.Reals("rn_a rn_b")
        u.bg.append(z3.ForAll([a, b], z3.And(z3.Implies(z3.And(a >= 0, b > 0), RDIV(a, b) >= 0),
                                             z3.Implies(z3.And(a > 0, b > 0), RDIV(a, b) > 0),
                                             z3.Implies(z3.And(a <= 0, b > 0), RDIV(a, b) <= 0),
                                             z3.Implies(z3.And(a > b, b > 0), RDIV(a, b) > 1),
                                             z3.Implies(z3.And(a >= b, b > 0), RDIV(a, b) >= 1),
                                             z3.Implies(z3.And(a == b, b != 0), RDIV(a, b) == 1)),
                              qid="rdiv-sign", patterns=[RDIV(a, b)]))
        u.bg.append(z3.ForAll([a, b], z3.And(z3.Implies(z3.And(a >= 0, b >= 0), RMUL(a, b) >= 0),
                                             z3.Implies(z3.And(a > 0, b > 0), RMUL(a, b) > 0),
                                             z3.Implies(z3.And(a >= 1, b >= 1), RMUL(a, b) >= 1)),
                              qid="rmul-sign", patterns=[RMUL(a, b)]))
        u.bg.append(z3.ForAll([a], RMUL(a, a) >= 0, qid="rmul-square", patterns=[RMUL(a, a)]))
        u.bg.append(z3.ForAll([a], z3.And(RMUL(a, 0) == 0, RMUL(0, a) == 0, RMUL(a, 1) == a, RMUL(1, a) == a),
                              qid="rmul-01", patterns=[RMUL(a, 0), RMUL(0, a), RMUL(a, 1), RMUL(1, a)]))
        u.bg.append(z3.ForAll([a], RDIV(a, 1) == a, qid="rdiv-1", patterns=[RDIV(a, 1)]))
        u.bg.append(z3.ForAll([a, b], z3.Implies(b != 0, RMUL(RDIV(a, b), b) == a), qid="rdiv-cancel", patterns=[RMUL(RDIV(a, b), b)]))
    return RMUL, RDIV


IDIV = z3.Function("idiv", I, I, I)


def use_idiv(u):
    """floor division by a symbolic positive integer, uninterpreted; facts: 0<=a<b => 0 ; b<=a<2b => 1"""
    if "idiv" not in u.used:
        u.used.add("idiv")
        a, b = z3.Ints("id_a id_b")
        u.bg.append(z3.ForAll([a, b], z3.And(z3.Implies(z3.And(b > 0, a >= 0, a < b), IDIV(a, b) == 0),
                                             z3.Implies(z3.And(b > 0, a >= b, a < 2 * b), IDIV(a, b) == 1),
                                             z3.Implies(z3.And(b > 0, a >= 0), IDIV(a, b) >= 0)),
                              qid="idiv-small", patterns=[IDIV(a, b)]))
    return IDIV


def axioms_for(used):
    """axioms for the uninterpreted symbols in `used` (names); every one is a true fact of real analysis."""
    x, y, a = z3.Reals("ax_x ax_y ax_a")
    k, j = z3.Ints("ax_k ax_j")
    out = []

    def fa(vs, body, pats):
        out.append(z3.ForAll(vs, body, patterns=pats))
    if "sqrt" in used:
        fa([x], z3.Implies(x >= 0, sqrt_(x) >= 0), [sqrt_(x)])
    if "sqrt-arith" in used:      # opt-in: nonlinear / pairwise facts
        fa([x], z3.Implies(x >= 0, sqrt_(x) * sqrt_(x) == x), [sqrt_(x)])
        fa([x, y], z3.Implies(z3.And(x >= 0, y >= 0, x <= y), sqrt_(x) <= sqrt_(y)), [z3.MultiPattern(sqrt_(x), sqrt_(y))])
        out.append(sqrt_(0) == 0)
        out.append(sqrt_(1) == 1)
    if "ln" in used:
        fa([x, y], z3.Implies(z3.And(x > 0, y > 0, x < y), ln(x) < ln(y)), [z3.MultiPattern(ln(x), ln(y))])
        fa([x, y], z3.Implies(z3.And(x > 0, y > 0, x <= y), ln(x) <= ln(y)), [z3.MultiPattern(ln(x), ln(y))])
        out.append(ln(1) == 0)
        fa([x], z3.Implies(x > 0, ln(x) < x), [ln(x)])
        fa([x], z3.Implies(x > 0, ln(1 / x) == -ln(x)), [ln(1 / x)])
        out.append(z3.And(ln(2) > z3.RealVal("0.6931"), ln(2) < z3.RealVal("0.6932")))
        out.append(ln(E_) == 1)
        out.append(ln(1 / E_) == -1)
        out.append(z3.And(E_ > z3.RealVal("2.718"), E_ < z3.RealVal("2.719")))
    if "exp" in used:
        fa([x], exp_(x) > 0, [exp_(x)])
        fa([x, y], z3.Implies(x <= y, exp_(x) <= exp_(y)), [z3.MultiPattern(exp_(x), exp_(y))])
        fa([x, y], z3.Implies(x < y, exp_(x) < exp_(y)), [z3.MultiPattern(exp_(x), exp_(y))])
        out.append(exp_(0) == 1)
        out.append(exp_(1) == E_)
    if "e" in used or "exp" in used:
        out.append(z3.And(E_ > z3.RealVal("2.718"), E_ < z3.RealVal("2.719")))
    if "sin" in used:
        fa([x], z3.And(sin_(x) >= -1, sin_(x) <= 1), [sin_(x)])
        fa([k], sin_(z3.ToReal(k) * PI) == 0, [sin_(z3.ToReal(k) * PI)])
        for kk in range(0, 13):
            out.append(sin_(z3.RealVal(kk) * PI) == 0)
    if "cos" in used:
        fa([x], z3.And(cos_(x) >= -1, cos_(x) <= 1), [cos_(x)])
        out.append(cos_(0) == 1)
    if "pi" in used or "sin" in used or "cos" in used:
        out.append(z3.And(PI > z3.RealVal("3.1415"), PI < z3.RealVal("3.1416")))
    if "rpow" in used:
        fa([x, y], z3.Implies(x > 0, rpow(x, y) > 0), [rpow(x, y)])
    if "rpow-shrink" in used:     # opt-in: a base in (0,1) raised to an exponent > 1 gets strictly smaller
        fa([x, y], z3.Implies(z3.And(x > 0, x < 1, y > 1), z3.And(rpow(x, y) < x, rpow(x, y) > 0)), [rpow(x, y)])
        fa([x, y], z3.Implies(z3.And(x > 0, x < 1, y > 0), z3.And(rpow(x, y) < 1, rpow(x, y) > 0)), [rpow(x, y)])
    if "rpow-arith" in used:      # opt-in (contract kw axioms=[...]): these multiply instances when many rpow terms occur
        fa([x], z3.Implies(x > 0, rpow(x, 0) == 1), [rpow(x, 0)])
        fa([x], rpow(x, 1) == x, [rpow(x, 1)])
        fa([x, y], z3.Implies(z3.And(x > 0, x <= 1, y >= 0), rpow(x, y) <= 1), [rpow(x, y)])
        fa([x, y], z3.Implies(z3.And(x >= 1, y >= 0), rpow(x, y) >= 1), [rpow(x, y)])
        fa([x, a, y], z3.Implies(z3.And(x > 0, x <= a, y >= 0), rpow(x, y) <= rpow(a, y)),
           [z3.MultiPattern(rpow(x, y), rpow(a, y))])
        fa([x, y, a], z3.Implies(z3.And(x > 0, x <= 1, y <= a), rpow(x, a) <= rpow(x, y)),
           [z3.MultiPattern(rpow(x, y), rpow(x, a))])
    if "log2-pow2" in used:       # opt-in: 2**y and log2 are inverse, 2**y is strictly increasing, 2**(y) = 2 * 2**(y-1)
        u_ = x
        fa([x], z3.Implies(x > 0, rpow(2, RDIV(ln(x), ln(2))) == x), [RDIV(ln(x), ln(2))])
        fa([x, y], z3.And(z3.Implies(x < y, rpow(2, x) < rpow(2, y)), z3.Implies(x <= y, rpow(2, x) <= rpow(2, y))),
           [z3.MultiPattern(rpow(2, x), rpow(2, y))])
        fa([x], rpow(2, x) == 2 * rpow(2, x - 1), [rpow(2, x)])
        fa([k], I2R(k) == z3.ToReal(k), [I2R(k)])
    if "rdiv-scale" in used:      # opt-in: (2x)/(2y) = x/y, (x+y)/y = x/y + 1, y/y = 1 for integer arguments (real division)
        x2, y2 = z3.Ints("rs_x2 rs_y2")
        a, b = k, j
        fa([a, b, x2, y2], z3.Implies(z3.And(x2 == 2 * a, y2 == 2 * b, b > 0), RDIV(I2R(x2), I2R(y2)) == RDIV(I2R(a), I2R(b))),
           [z3.MultiPattern(RDIV(I2R(x2), I2R(y2)), RDIV(I2R(a), I2R(b)))])
        fa([a, b, x2], z3.Implies(z3.And(x2 == a + b, b > 0), RDIV(I2R(x2), I2R(b)) == RDIV(I2R(a), I2R(b)) + 1),
           [z3.MultiPattern(RDIV(I2R(x2), I2R(b)), RDIV(I2R(a), I2R(b)))])
    if "i2r-exact" in used:       # opt-in: the uninterpreted int->real conversion is the identity embedding
        fa([k], I2R(k) == z3.ToReal(k), [I2R(k)])
    if "pow2" in used:
        out.append(pow2(0) == 1)
        fa([k], z3.Implies(k >= 0, z3.And(pow2(k + 1) == 2 * pow2(k), pow2(k) >= 1)), [pow2(k + 1)])
        fa([k], z3.Implies(k >= 0, pow2(k) >= 1), [pow2(k)])
        fa([k], z3.Implies(k >= 1, pow2(k) == 2 * pow2(k - 1)), [pow2(k)])
    return out
