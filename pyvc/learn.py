"""developer tool: run every unit with full budgets and record unsat cores as hints (contracts/HINTS.json)"""
import sys, time
from . import driver, solve
from .engine import Unsupported

if __name__ == "__main__":
    ct, reg = driver.load()
    units = driver.select_units(reg, "ALL")
    only = [a for a in sys.argv[1:] if not a.startswith("-")]
    if only:
        units = [(q, N) for q, N in units if any(o in q for o in only)]
    import os
    obls, infos, undecided, crashes = solve.generate([(q, N, "ALL", "quick", os.environ.get("PYVC_REPO")) for q, N in units])
    for x in undecided + crashes:
        print("UNSUPPORTED/CRASH", x)
    t = solve.discharge(obls, timeout_ms=60000, retries=((120000, 1),), learn=True)
    bad = [o for o in obls if (o.status != "proved") != (o.kind == "canary")]
    for o in bad:
        print(o.status, o.site, o.trail)
    print("units", len(units), "obligations", len(obls), "bad", len(bad), "wall %.0fs" % t)
