"""Discharge obligations: one solver query per obligation, 16 worker processes.

Hints (contracts/HINTS.json) name, per obligation, a subset of hypotheses that sufficed last time
(an unsat core).  A hinted query is tried first; proving from a subset of the hypotheses is a proof.
If it does not go through, the full query decides.  Hints never turn a failure into a pass."""
import os, time, json, hashlib, multiprocessing as mp
from concurrent.futures import ProcessPoolExecutor
import z3
from . import worker

_pool = None
HINTS_PATH = os.path.join(os.path.dirname(os.path.dirname(os.path.abspath(__file__))), "contracts", "HINTS.json")


def pool():
    global _pool
    if _pool is None:
        _pool = ProcessPoolExecutor(max_workers=int(os.environ.get("PYVC_JOBS", "16")), mp_context=mp.get_context("spawn"))
    return _pool


def to_smt(ob, bg):
    s = z3.Solver()
    for h in bg:
        s.add(h)
    for h in ob.hyps:
        s.add(h)
    s.add(z3.Not(ob.goal))
    return s.to_smt2()


_hcache = {}


def hyp_hash(h):
    k = h.get_id()
    if k not in _hcache:
        import re
        _hcache[k] = hashlib.sha1(re.sub(r"![0-9]+", "!", h.sexpr()).encode()).hexdigest()[:12]
    return _hcache[k]


def load_hints():
    try:
        return json.load(open(HINTS_PATH))
    except Exception:
        return {}


class Rec:
    """an obligation as produced by a generator process: the SMT-LIB text plus what the report needs"""
    def __init__(self, **kw):
        self.__dict__.update(kw)
        self.status, self.time, self.backend, self.detail = None, 0.0, None, ""

    @property
    def site(self):
        return "%s:%s:%s" % (self.unit, self.kind, self.label)


_CT = {}


def gen_unit(task):
    """runs in a worker process: verify one unit, return its obligations (filtered by property) as SMT-LIB strings"""
    qname, N, prop, tier, repo = task
    import time as _t
    t0 = _t.time()
    from . import driver
    from .engine import Unsupported
    key = repo or ""
    if key not in _CT:
        _CT[key] = driver.load(repo)
    ct, reg = _CT[key]
    out = {"qname": qname, "N": N, "undecided": None, "obls": []}
    try:
        u, ob = driver.verify(ct, reg, qname, N, tier)
    except Unsupported as ex:
        out["undecided"] = "%s%s: %s" % (qname, "[%s]" % N if N else "", ex)
        return out
    except Exception as ex:          # generator crash: reported as checker error, never as a verdict
        import traceback
        out["crash"] = traceback.format_exc()
        return out
    keep = [o for o in ob if prop in o.props or o.kind == "canary" or prop == "ALL"]
    assign_keys(keep)
    sha, src = ct.files[u.file]
    out.update(uid=u.uid, file=u.file, sha=sha[:16], span=ct.span(u.fdef), called=sorted(u.called), assumed=sorted(u.assumed),
               bounded=list(u.bounded), inlined=sorted(u.inlined), inferred=list(getattr(ct, "inferred", [])))
    for o in keep:
        smt = to_smt(o, o.bg)
        hashes = [hyp_hash(h) for h in list(o.bg) + list(o.hyps)]
        out["obls"].append(dict(unit=o.unit, kind=o.kind, label=o.label, props=sorted(o.props), trail=o.trail, key=o.key,
                                smt=smt, hashes=hashes, nhyp=len(hashes)))
    out["gen_s"] = _t.time() - t0
    return out


def generate(tasks):
    """tasks: list of (qname, N, prop, tier, repo) -> (list[Rec], unit infos, undecided, crashes)"""
    p = pool()
    res = list(p.map(gen_unit, tasks, chunksize=1))
    recs, infos, undecided, crashes = [], [], [], []
    for r in res:
        if r.get("crash"):
            crashes.append("%s: %s" % (r["qname"], r["crash"]))
            continue
        if r["undecided"]:
            undecided.append(r["undecided"])
            continue
        infos.append(r)
        for o in r["obls"]:
            recs.append(Rec(**o))
    return recs, infos, undecided, crashes


def assign_keys(obls):
    seen = {}
    for ob in obls:
        base = "%s|%s" % (ob.site, getattr(ob, "trail", "").strip())
        n = seen.get(base, 0)
        seen[base] = n + 1
        ob.key = base if n == 0 else "%s#%d" % (base, n)


def _stage(p, obs, mk):
    """run one solver stage over the still-open obligations; returns those still open"""
    if not obs:
        return []
    res = list(p.map(worker.run, [mk(ob) for ob in obs], chunksize=1))
    open_ = []
    for ob, (st, t, why) in zip(obs, res):
        ob.time += t
        if st == "unsat":
            ob.status = "proved"
            ob.backend = ob._stage
        elif st == "sat" and ob._full:
            ob.status = "refuted"
            ob.backend = ob._stage
        else:
            ob.detail = str(why)
            ob.status = "unknown" if st in ("unknown", "sat") else "error"
            open_.append(ob)
    return open_


def discharge(obls, timeout_ms=20000, seed=0, retries=((60000, 1),), use_cvc5=True, hints=None, learn=False):
    """obls: list of Obl with .bg set.  Sets .status in proved / refuted / unknown / error.
    Portfolio per obligation: [hinted subset, full] x [E-matching only, z3 default]; then other seeds; then cvc5."""
    if os.environ.get("PYVC_NORETRY"):
        retries, use_cvc5 = (), False
    # solver seeds are fixed: a proof obligation has no random choices to explore, and fixed seeds make the verdict on an
    # unchanged tree reproducible (VERIF_SEED is recorded in the evidence but does not perturb the solvers)
    seed = int(os.environ.get("PYVC_SOLVER_SEED", "0"))
    p = pool()
    if any(getattr(ob, "key", None) is None for ob in obls):
        assign_keys(obls)
    hints = load_hints() if hints is None else hints
    t0 = time.time()
    for ob in obls:
        if getattr(ob, "smt", None) is None:
            ob.smt = to_smt(ob, ob.bg)
            ob.nhyp = len(ob.bg) + len(ob.hyps)
            ob.hashes = [hyp_hash(h) for h in list(ob.bg) + list(ob.hyps)]
    canaries = [ob for ob in obls if ob.kind == "canary"]
    real = [ob for ob in obls if ob.kind != "canary"]
    for ob in canaries:
        ob._stage, ob._full = "z3", True
    _stage(p, canaries, lambda ob: (ob.smt, 1500, seed, "z3", None, "ematch"))
    hinted = [ob for ob in real if ob.key in hints]
    for ob in hinted:
        hs = set(hints[ob.key])
        ob.subset = [i for i, x in enumerate(ob.hashes) if x in hs]
        ob._stage, ob._full = "z3(core-hint,ematch)", False
    left = _stage(p, hinted, lambda ob: (ob.smt, 4000, seed, "hint", ob.subset, "ematch"))
    for ob in left:
        ob._stage = "z3(core-hint)"
    left = _stage(p, left, lambda ob: (ob.smt, 8000, seed, "hint", ob.subset, "auto"))
    hset = set(id(ob) for ob in hinted)
    todo = [ob for ob in real if id(ob) not in hset] + left
    for ob in todo:
        ob._stage, ob._full = "z3(ematch)", True
    # z3's search is chaotic on these VCs (dropping one irrelevant hypothesis can turn a timeout into an instant proof), so after
    # a first E-matching attempt the still-open obligations get a perturbation portfolio, all variants at once:
    # three more seeds on the full hypothesis set and eight pseudo-random 88% subsets (sound: a proof from fewer hypotheses)
    for ob in todo:
        ob._stage = "z3(ematch)"
    todo = _stage(p, todo, lambda ob: (ob.smt, 4000, seed, "z3", None, "ematch"))
    if todo:
        jobs, owner = [], []
        for ob in todo:
            for i in range(8):
                jobs.append((ob.smt, 5000, 1000 + i, "drop", None, "ematch"))
                owner.append((ob, "z3(ematch,subset%d)" % i))
            for i in (1, 2):
                jobs.append((ob.smt, 8000, seed + 11 * i, "z3", None, "ematch"))
                owner.append((ob, "z3(ematch,seed+%d)" % i))
        res = list(p.map(worker.run, jobs, chunksize=1))
        for (ob, stage), (st, t, why) in zip(owner, res):
            ob.time += t / 10.0
            if st == "unsat" and ob.status != "proved":
                ob.status, ob.backend = "proved", stage
        todo = [ob for ob in todo if ob.status != "proved"]
    for ob in todo:
        ob._stage = "z3(ematch,long)"
    todo = _stage(p, todo, lambda ob: (ob.smt, min(timeout_ms, 15000), seed + 33, "z3", None, "ematch"))
    for ob in todo:
        ob._stage, ob._full = "z3", True
    todo = _stage(p, todo, lambda ob: (ob.smt, timeout_ms, seed, "z3", None, "auto"))
    for (tmo, sd) in retries:
        for ob in todo:
            ob._stage = "z3(seed+%d)" % sd
        todo = _stage(p, todo, lambda ob: (ob.smt, tmo, seed + sd, "z3", None, "auto"))
    if todo and use_cvc5:
        for ob in todo:
            ob._stage = "cvc5"
        todo = _stage(p, todo, lambda ob: (ob.smt, 30000, 0, "cvc5"))
    if learn:
        learn_hints(obls, hints, seed)
    return time.time() - t0


def learn_hints(obls, hints, seed=0):
    p = pool()
    cand = [ob for ob in obls if ob.status == "proved" and ob.kind != "canary" and "core-hint" not in ob.backend
            and (ob.time > 0.25 or ob.backend != "z3(ematch,seed+0)")]
    res = list(p.map(worker.run, [(ob.smt, int(min(60000, max(10000, 3000 * ob.time))), seed, "core") for ob in cand], chunksize=1))
    for ob, (st, t, core) in zip(cand, res):
        if st == "unsat":
            hints[ob.key] = sorted(set(ob.hashes[i] for i in core))
    tmp = HINTS_PATH + ".tmp"
    json.dump(hints, open(tmp, "w"), indent=0, sort_keys=True)
    os.replace(tmp, HINTS_PATH)
