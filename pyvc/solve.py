"""Discharge obligations: one solver query per obligation, 16 worker processes.

Hints (contracts/HINTS.json) name, per obligation, a subset of hypotheses that sufficed last time
(an unsat core).  A hinted query is tried first; proving from a subset of the hypotheses is a proof.
If it does not go through, the full query decides.  Hints never turn a failure into a pass."""
import os, time, json, hashlib, multiprocessing as mp
from concurrent.futures import ProcessPoolExecutor
import z3
from . import worker

_pool = None
HINTS_PATH = os.path.join(os.path.dirname(os.path.dirname(os.path.abspath(__file__))), "contracts", "HINTS.json")


def pool():
    global _pool
    if _pool is None:
        _pool = ProcessPoolExecutor(max_workers=int(os.environ.get("PYVC_JOBS", "16")), mp_context=mp.get_context("spawn"))
    return _pool


def to_smt(ob, bg):
    s = z3.Solver()
    for h in bg:
        s.add(h)
    for h in ob.hyps:
        s.add(h)
    s.add(z3.Not(ob.goal))
    return s.to_smt2()


_hcache = {}


def hyp_hash(h):
    k = h.get_id()
    if k not in _hcache:
        import re
        _hcache[k] = hashlib.sha1(re.sub(r"![0-9]+", "!", h.sexpr()).encode()).hexdigest()[:12]
    return _hcache[k]


def load_hints():
    try:
        return json.load(open(HINTS_PATH))
    except Exception:
        return {}


def assign_keys(obls):
    seen = {}
    for ob in obls:
        base = "%s|%s" % (ob.site, getattr(ob, "trail", "").strip())
        n = seen.get(base, 0)
        seen[base] = n + 1
        ob.key = base if n == 0 else "%s#%d" % (base, n)


def discharge(obls, timeout_ms=20000, seed=0, retries=((60000, 1),), use_cvc5=True, hints=None, learn=False):
    """obls: list of Obl with .bg set.  Sets .status in proved / refuted / unknown / error."""
    if os.environ.get("PYVC_NORETRY"):
        retries, use_cvc5 = (), False
    p = pool()
    assign_keys(obls)
    hints = load_hints() if hints is None else hints
    t0 = time.time()
    for ob in obls:
        ob.smt = to_smt(ob, ob.bg)
        ob.nhyp = len(ob.bg) + len(ob.hyps)
    # 1. hinted attempt
    hinted = [ob for ob in obls if ob.key in hints and ob.kind != "canary"]
    for ob in hinted:
        hs = set(hints[ob.key])
        ob.hashes = [hyp_hash(h) for h in list(ob.bg) + list(ob.hyps)]
        ob.subset = [i for i, x in enumerate(ob.hashes) if x in hs]
    res = list(p.map(worker.run, [(ob.smt, 8000, seed, "hint", ob.subset) for ob in hinted], chunksize=1))
    done = set()
    for ob, (st, t, why) in zip(hinted, res):
        ob.time += t
        if st == "unsat":
            ob.status, ob.backend = "proved", "z3(core-hint)"
            done.add(id(ob))
    # 2. full query
    todo = [ob for ob in obls if id(ob) not in done]
    res = list(p.map(worker.run, [(ob.smt, 1500 if ob.kind == "canary" else timeout_ms, seed, "z3") for ob in todo], chunksize=1))
    pending = []
    for ob, (st, t, why) in zip(todo, res):
        ob.time += t
        ob.backend = "z3"
        ob.detail = why
        ob.status = {"unsat": "proved", "sat": "refuted"}.get(st, "unknown" if st == "unknown" else "error")
        if ob.status in ("unknown", "error") and ob.kind != "canary":
            pending.append(ob)
    for (tmo, sd) in retries:
        if not pending:
            break
        res = list(p.map(worker.run, [(ob.smt, tmo, seed + sd, "z3") for ob in pending], chunksize=1))
        nxt = []
        for ob, (st, t, why) in zip(pending, res):
            ob.time += t
            if st == "unsat":
                ob.status, ob.backend = "proved", "z3(seed+%d)" % sd
            elif st == "sat":
                ob.status = "refuted"
            else:
                ob.detail = why
                nxt.append(ob)
        pending = nxt
    if pending and use_cvc5:
        res = list(p.map(worker.run, [(ob.smt, 30000, 0, "cvc5") for ob in pending], chunksize=1))
        for ob, (st, t, why) in zip(pending, res):
            ob.time += t
            if st == "unsat":
                ob.status, ob.backend = "proved", "cvc5"
            elif st == "sat":
                ob.status, ob.backend = "refuted", "cvc5"
    if learn:
        learn_hints(obls, hints, seed)
    return time.time() - t0


def learn_hints(obls, hints, seed=0):
    p = pool()
    cand = [ob for ob in obls if ob.status == "proved" and ob.kind != "canary" and ob.backend != "z3(core-hint)"]
    res = list(p.map(worker.run, [(ob.smt, 60000, seed, "core") for ob in cand], chunksize=1))
    for ob, (st, t, core) in zip(cand, res):
        if st == "unsat":
            H = list(ob.bg) + list(ob.hyps)
            hints[ob.key] = sorted(set(hyp_hash(H[i]) for i in core))
    tmp = HINTS_PATH + ".tmp"
    json.dump(hints, open(tmp, "w"), indent=0, sort_keys=True)
    os.replace(tmp, HINTS_PATH)
