"""Discharge obligations: one solver query per obligation, 16 worker processes."""
import os, time, multiprocessing as mp
from concurrent.futures import ProcessPoolExecutor
import z3
from . import worker

_pool = None


def pool():
    global _pool
    if _pool is None:
        _pool = ProcessPoolExecutor(max_workers=int(os.environ.get("PYVC_JOBS", "16")), mp_context=mp.get_context("spawn"))
    return _pool


def to_smt(ob, bg):
    s = z3.Solver()
    for h in bg:
        s.add(h)
    for h in ob.hyps:
        s.add(h)
    s.add(z3.Not(ob.goal))
    return s.to_smt2()


def discharge(obls, timeout_ms=20000, seed=0, retries=((60000, 1), (60000, 7)), use_cvc5=True):
    if os.environ.get("PYVC_NORETRY"):
        retries, use_cvc5 = (), False
    """obls: list of Obl with .bg set.  Sets .status in proved / refuted / unknown / error."""
    p = pool()
    jobs = []
    for ob in obls:
        ob.smt = to_smt(ob, ob.bg)
        jobs.append((ob.smt, 1500 if ob.kind == "canary" else timeout_ms, seed, "z3"))
    t0 = time.time()
    res = list(p.map(worker.run, jobs, chunksize=1))
    pending = []
    for ob, (st, t, why) in zip(obls, res):
        ob.time += t
        ob.backend = "z3"
        ob.detail = why
        ob.status = {"unsat": "proved", "sat": "refuted"}.get(st, "unknown" if st == "unknown" else "error")
        if ob.status in ("unknown", "error") and ob.kind != "canary":
            pending.append(ob)
    for (tmo, sd) in retries:
        if not pending:
            break
        res = list(p.map(worker.run, [(ob.smt, tmo, seed + sd, "z3") for ob in pending], chunksize=1))
        nxt = []
        for ob, (st, t, why) in zip(pending, res):
            ob.time += t
            if st == "unsat":
                ob.status, ob.backend = "proved", "z3(seed+%d)" % sd
            elif st == "sat":
                ob.status = "refuted"
            else:
                ob.detail = why
                nxt.append(ob)
        pending = nxt
    if pending and use_cvc5:
        res = list(p.map(worker.run, [(ob.smt, 60000, 0, "cvc5") for ob in pending], chunksize=1))
        for ob, (st, t, why) in zip(pending, res):
            ob.time += t
            if st == "unsat":
                ob.status, ob.backend = "proved", "cvc5"
            elif st == "sat":
                ob.status, ob.backend = "refuted", "cvc5"
    return time.time() - t0
