"""Symbolic interpreter for the Python subset used by PyXAB (code mode) and for contract text (spec mode)."""
import ast
import z3
import inspect as _insp


def QID():
    f = _insp.currentframe().f_back
    return "%s.%d" % (f.f_code.co_name, f.f_lineno)
from .ty import Ty, INT, BOOL, REAL, FLOAT, NONE, STR, parse_ty, subst_ty
from . import num
from .num import XR, fin, pinf, ninf, xval, is_fin, I, R, B
from .engine import (allows, Unsupported, Val, State, Frame, fresh, sort_of, reflike, str_id, cls_id,
                     is_docstring, MODS, _preorder)

UNK = Ty("unk")
clsname = z3.Function("clsname", I, I)


class PathEnd(Exception):
    """the current symbolic path cannot continue normally (callee always raises / infeasible)"""


_parse_cache = {}


def parse_expr(text):
    if text not in _parse_cache:
        _parse_cache[text] = ast.parse(text.strip(), mode="eval").body
    return _parse_cache[text]


def ty_join(a, b):
    if a == b:
        return a
    if a.k == "unk":
        return b
    if b.k == "unk":
        return a
    order = {"int": 0, "real": 1, "float": 2}
    if a.k in order and b.k in order:
        if a.k == b.k == "real":
            return REAL
        return a if order[a.k] >= order[b.k] else b
    if a.k == "none" and reflike(b):
        return b.with_opt()
    if b.k == "none" and reflike(a):
        return a.with_opt()
    if a.k == b.k and a.k in ("ref", "list", "dict"):
        if a.k == "list" and a.a[0].k == "unk":
            return Ty("list", b.a, a.opt or b.opt)
        if a.k == "list" and b.a[0].k == "unk":
            return Ty("list", a.a, a.opt or b.opt)
        if a.a == b.a:
            return Ty(a.k, a.a, a.opt or b.opt)
        if a.k == "ref":
            return Ty("ref", a.a, a.opt or b.opt)
    if a.k == "bool" and b.k == "int":
        return b
    if a.k == "int" and b.k == "bool":
        return a
    raise Unsupported("cannot join types %s and %s" % (a, b))


def split_goal(goal):
    """one query per conjunct, also under a shared universal prefix / implication guard"""
    if z3.is_and(goal):
        return [x for ch in goal.children() for x in split_goal(ch)]
    if z3.is_quantifier(goal) and goal.is_forall():
        n = goal.num_vars()
        vs = [z3.Const("%s!q%d" % (goal.var_name(i), i), goal.var_sort(i)) for i in range(n)]
        body = z3.substitute_vars(goal.body(), *reversed(vs))
        parts = split_goal(body)
        if len(parts) > 1:
            return [z3.ForAll(vs, p) for p in parts]
        return [goal]
    if z3.is_implies(goal):
        g, b = goal.children()
        parts = split_goal(b)
        if len(parts) > 1:
            return [z3.Implies(g, p) for p in parts]
    return [goal]


class Interp:
    def __init__(self, unit):
        self.u = unit
        self.ct = unit.ct
        self.reg = unit.reg
        self.ltypes = {}

    # ================================================================== unit driver
    def run_unit(self):
        u, c = self.u, self.u.contract
        fdef = u.fdef
        frame = Frame(fdef, u.defcls, u.qname, decl_locals=c.locals, file=u.file)
        st = State()
        st.next = u.next0
        a = fdef.args
        names = [x.arg for x in a.args]
        for p in names:
            if p == "self":
                ty = Ty("ref", (u.cls,))
            elif c.params.get(p) in ("fn", "fn?"):
                ty = parse_ty(c.params[p])
            else:
                if p not in c.params:
                    # a parameter the contract does not know (added by a code change): typed from a literal default
                    dflt = dict(zip(names[len(names) - len(a.defaults):], a.defaults)).get(p)
                    lit = {bool: "bool", int: "int", float: "real"}.get(type(getattr(dflt, "value", None))) \
                        if isinstance(dflt, ast.Constant) else None
                    if lit is None:
                        raise Unsupported("%s: parameter %s has no declared type" % (u.qname, p))
                    ty = parse_ty(lit)
                else:
                    ty = u.T(c.params[p])
            v = z3.Const("p_" + p, sort_of(ty))
            st.locals[p] = Val(v, ty)
            st.pc += self.typing_facts(v, ty, st.next)
        clauses = self.all_clauses(c)
        u.entry = st.fork()
        for cl in clauses["requires"]:
            st.pc.append(self.spec(cl.text, st, frame))
        u.entry = st.fork()
        u.mod = self.compile_modifies(clauses["modifies"], u.entry, frame, {})
        u.is_init = fdef.name == "__init__"
        u.self_t = st.locals["self"].t if "self" in st.locals else None
        u.oblige(st, z3.BoolVal(False), "canary", "pre", set())
        if c.defines:
            impure = [n for n in ast.walk(fdef) if (isinstance(n, ast.Attribute) and isinstance(n.value, ast.Name)
                                                    and n.value.id in ("self", "random")) or
                      (isinstance(n, ast.Attribute) and n.attr == "random") or isinstance(n, (ast.Global, ast.Nonlocal))]
            u.oblige(st, z3.BoolVal(not impure), "pure", "heap-and-rng-free", c.props)
        outcomes = self.exec_block(fdef.body, st, frame)
        rcond = {}
        for exc, text in clauses["raises"].items():
            rcond[exc] = self.spec(text, u.entry, frame)
        rty = u.T(c.returns) if c.returns else None
        for kind, s, v in outcomes:
            # vacuity canary: `False` must not be provable at the end of any path
            u.oblige(s, z3.BoolVal(False), "canary", "end-" + kind, set())
            if kind in ("next", "return") and c.ghost_after:
                self.run_ghost(c, s, frame)
            if kind == "return" and c.defines:
                # the spec function named here is, by definition, the value this function returns for its argument(s):
                # legitimate because the body reads no heap and draws no random number (checked just below)
                args = ", ".join(x.arg for x in fdef.args.args)
                s.pc.append(self.spec("result == %s(%s)" % (c.defines, args), s, frame, old=u.entry,
                                      binds=dict(u.entry.locals, result=v)))
            if kind in ("next", "return"):
                for exc, cond in rcond.items():
                    u.oblige(s, z3.Not(cond), "post", "no-" + exc, c.props | {"C01"})
                binds = dict(u.entry.locals)      # in postconditions a parameter name means its value at entry
                if rty is not None:
                    if v is None:
                        v = Val(z3.IntVal(0), NONE)
                    binds["result"] = self.coerce(v, rty, s, None, frame, spec=True) if v.ty.k != "tuple" else v
                for cl in clauses["ensures"]:
                    if cl.witness:
                        binds = dict(binds)
                        try:
                            for wv, (wty, wexpr) in cl.witness.items():
                                binds[wv] = self.coerce(self.spec_val(wexpr, s, frame, old=u.entry), u.T(wty), s, None, frame, spec=True)
                        except Unsupported:
                            # the witness expression does not exist on this path: the clause can only hold if the path is dead
                            u.oblige(s, z3.BoolVal(False), "post", cl.label + ".no-witness-on-this-path", cl.props)
                            continue
                    self.oblige_clause(s, cl, "post", cl.label, frame, old=u.entry, binds=binds)
            elif kind == "raise":
                if v in rcond:
                    u.oblige(s, rcond[v], "raises", v, c.props | {"C01"})
                else:
                    u.oblige(s, z3.BoolVal(False), "safe", "raise-" + str(v), {"C01"})
            else:
                raise Unsupported("%s outside a loop" % kind)

    def oblige_clause(self, st, cl, kind, label, frame, **kw):
        """obligation(s) for one contract clause; a clause with a case split is proved case by case"""
        if cl.cases is None:
            g = self.spec(cl.text, st, frame, assume=False, **kw)
            self.oblige_split(st, g, kind, label, cl.props)
            return
        body, gens, cases = cl.cases
        for i, c in enumerate(cases):
            g = self.spec("all(implies(%s, %s) %s)" % (c, body, gens), st, frame, assume=False, **kw)
            self.oblige_split(st, g, kind, "%s.case%d" % (label, i), cl.props)
        cover = " or ".join("(%s)" % c for c in cases)
        g = self.spec("all(%s %s)" % (cover, gens), st, frame, assume=False, **kw)
        self.oblige_split(st, g, kind, "%s.cover" % label, cl.props)

    def oblige_split(self, st, goal, kind, label, props, guard=(), where=None):
        parts = split_goal(goal)
        if len(parts) == 1:
            self.u.oblige(st, goal, kind, label, props, guard, where)
        else:
            for i, p in enumerate(parts):
                self.u.oblige(st, p, kind, "%s.%d" % (label, i), props, guard, where)

    def all_clauses(self, c):
        req, ens, mod, rai = list(c.requires), list(c.ensures), list(c.modifies), dict(c.raises)
        if c.qname.endswith(".__init__") and not any(m.startswith("self.*") for m in mod):
            mod = ["self.*@" + c.qname.rsplit(".", 1)[0]] + mod
        for g in c.ghost_after:
            # a ghost assignment of this function is part of its frame (target evaluated in the pre-state; objects allocated by
            # the call are always writable)
            lhs = g.split(":=")[0].strip()
            if lhs.startswith("fresh "):
                continue            # target is an object allocated by the call itself (named by a local): needs no frame entry
            m = "ghost " + lhs
            if m not in mod:
                mod.append(m)
        if c.implements:
            b = self.reg.contracts[c.implements]
            bc = self.all_clauses(b)
            req = bc["requires"] + req
            ens = bc["ensures"] + ens
            mod = bc["modifies"] + mod
            for k, v in bc["raises"].items():
                rai.setdefault(k, v)
        return {"requires": req, "ensures": ens, "modifies": mod, "raises": rai}

    def typing_facts(self, v, ty, nx):
        out = []
        if reflike(ty) or ty.k == "none":
            out.append(v >= 0)
            out.append(v < nx)
            if not ty.opt and ty.k != "none":
                out.append(v > 0)
        return out

    # ================================================================== modifies
    def compile_modifies(self, mods, st, frame, binds):
        """-> key -> list[(guard|None, ref)] | '*'"""
        out = {}
        for m in mods:
            m = m.strip()
            guard = None
            if " when " in m:
                m, g = m.split(" when ", 1)
                guard = self.spec(g, st, frame, binds=binds)
                m = m.strip()
            if m.startswith("ghost "):
                nm, arg = m[6:].strip().split("(", 1)
                arg = arg.rsplit(")", 1)[0]
                key = "g:" + nm.strip()
                gty = self.u.T(self.reg.ghost_fields[nm.strip()])
                self.u._key_ty.setdefault(key, gty)
                self.u.get_arr(st, key, gty)
                if arg.strip() == "*":
                    out[key] = "*"
                    continue
                v = self.spec_val(arg, st, frame, binds=binds)
                if out.get(key) != "*":
                    out.setdefault(key, []).append((guard, v.t))
                continue
            if " where " in m:
                head, cond = m.split(" where ", 1)
                kind, var = head.rsplit(None, 1)
                kind = kind.strip()
                if kind.startswith("list["):
                    lt = self.u.T(kind)
                    e = self.ct.erase(lt)
                    self.u.get_arr(st, "len:" + e, lt.elem)
                    vty, keys = lt, ["len:" + e, "elt:" + e]
                else:
                    C, f = kind.split(".")
                    K, fty = self.ct.find_field(C, f)
                    if K is None:
                        raise Unsupported("modifies: no field " + kind)
                    key = "f:%s.%s" % (K, f)
                    self.u.get_arr(st, key, self.u.T(fty))
                    vty, keys = Ty("ref", (C,)), [key]

                def mk(cond=cond, var=var, vty=vty, st=st.fork(), binds=dict(binds)):
                    def f(r):
                        b2 = dict(binds)
                        b2[var] = Val(r, vty)
                        return self.spec(cond, st.fork(), frame, binds=b2)
                    return f
                fnc = mk()
                for k in keys:
                    if out.get(k) != "*":
                        out.setdefault(k, []).append(("where", fnc))
                continue
            if m.startswith("*"):
                body = m[1:]
                if body.startswith("list["):
                    lt = self.u.T(body)
                    e = self.ct.erase(lt)
                    self.u.get_arr(st, "len:" + e, lt.elem)
                    out["len:" + e] = "*"
                    out["elt:" + e] = "*"
                else:
                    C, f = body.split(".")
                    K, fty = self.ct.find_field(C, f)
                    if K is None:
                        raise Unsupported("modifies: no field " + body)
                    key = "f:%s.%s" % (K, f)
                    self.u.get_arr(st, key, self.u.T(fty))
                    out[key] = "*"
                continue
            if m.startswith("dict(") and m.endswith(")"):
                v = self.spec_val(m[5:-1], st, frame, binds=binds)
                if v.ty.k != "dict":
                    raise Unsupported("modifies dict(%s): not a dict" % m)
                kl = Ty("list", (v.ty.a[0],))
                e = self.ct.erase(kl)
                self.u.get_arr(st, "len:" + e, v.ty.a[0])
                dk = "dv:" + self.ct.erase(v.ty)
                self.u._key_ty[dk] = v.ty.a[1]
                self.u.get_arr(st, dk, v.ty.a[1])
                for k in ("len:" + e, "elt:" + e, dk):
                    if out.get(k) != "*":
                        out.setdefault(k, []).append((guard, v.t))
                continue
            if m.startswith("list(") and m.endswith(")"):
                v = self.spec_val(m[5:-1], st, frame, binds=binds)
                if v.ty.k != "list":
                    raise Unsupported("modifies list(%s): not a list" % m)
                e = self.ct.erase(v.ty)
                self.u.get_arr(st, "len:" + e, v.ty.elem)
                for k in ("len:" + e, "elt:" + e):
                    if out.get(k) != "*":
                        out.setdefault(k, []).append((guard, v.t))
                continue
            only_cls = None
            if "@" in m:
                m, only_cls = m.split("@")
            objtxt, _, f = m.rpartition(".")
            v = self.spec_val(objtxt, st, frame, binds=binds)
            if v.ty.k != "ref":
                raise Unsupported("modifies %s: receiver is not an object" % m)
            if f == "*":
                for fname, (K, fty) in self.ct.all_fields(only_cls or v.ty.cls).items():
                    key = "f:%s.%s" % (K, fname)
                    self.u.get_arr(st, key, self.u.T(fty))
                    if out.get(key) != "*":
                        out.setdefault(key, []).append((guard, v.t))
                    if (K, fname) in self.ct.late:
                        out.setdefault("def:%s.%s" % (K, fname), []).append((guard, v.t))
                continue
            K, fty = self.ct.find_field(v.ty.cls, f)
            if K is None:
                raise Unsupported("modifies: no field %s" % m)
            key = "f:%s.%s" % (K, f)
            self.u.get_arr(st, key, self.u.T(fty))
            if out.get(key) != "*":
                out.setdefault(key, []).append((guard, v.t))
            if (K, f) in self.ct.late:
                out.setdefault("def:%s.%s" % (K, f), []).append((guard, v.t))
        return out

    def frame_check(self, st, key, ref, where, frame):
        u = self.u
        if u.dry:
            return
        if key.startswith("idx:"):
            return
        tg = u.mod.get(key, [])
        if tg == "*":
            return
        alts = [ref >= u.next0]
        if u.is_init and key[:2] in ("f:", "de"):
            alts.append(ref == u.self_t)
        alts += allows(tg, ref)
        u.oblige(st, z3.Or(*alts), "frame", key, u.contract.props | {"C14"}, where=where)
        for (lm, bound, n) in getattr(u, "loop_frames", []):
            tg = lm.get(key, [])
            if tg == "*":
                continue
            alts = [ref >= bound] + allows(tg, ref)
            u.oblige(st, z3.Or(*alts), "frame", "loop%d:%s" % (n, key), u.contract.props | {"C14"}, where=where)

    # ================================================================== spec helpers
    def spec(self, text, st, frame, old=None, entry=None, binds=None, assume=True):
        """contract text -> formula.  assume=True: used as hypothesis; False: used as proof goal.
        Typed-heap side facts (non-optional fields hold non-None) are conjoined resp. assumed."""
        self.name_heap(st)
        ev = Ev(self, st, frame, spec=True, old=old, entry=entry, binds=binds)
        ev.assume = assume
        t = self.truth(ev.ev(parse_expr(text)))
        if ev.facts:
            from .ev import _dedupe
            fs = _dedupe(ev.facts)
            t = z3.And(*(fs + [t])) if assume else z3.Implies(z3.And(*fs), t)
        return t

    def name_heap(self, st):
        """bind every non-constant heap array to a fresh constant, so quantifier triggers stay free of store/ite"""
        for k, A in list(st.heap.items()):
            if not (z3.is_const(A) and A.decl().kind() == z3.Z3_OP_UNINTERPRETED):
                c = fresh("N_" + k, A.sort())
                st.pc.append(c == A)
                st.heap[k] = c

    def spec_val(self, text, st, frame, old=None, entry=None, binds=None):
        ev = Ev(self, st, frame, spec=True, old=old, entry=entry, binds=binds)
        return ev.ev(parse_expr(text))

    def truth(self, v):
        if v.ty.k == "bool":
            return v.t
        if v.ty.k == "int":
            return v.t != 0
        if v.ty.k in ("ref", "none", "dict"):
            return v.t != 0
        raise Unsupported("truth value of %s" % v.ty)

    # ================================================================== coercion
    def coerce(self, v, ty, st, node, frame, spec=False):
        a = v.ty
        if a == ty:
            return v
        if ty.k == "unk":
            return v
        if a.k == "tuple":
            return v
        if ty.k in ("int", "real") and ty.opt:            # int? / real?  (None | number)
            if a.k == "none":
                return Val(num.opt_dt(ty)[1], ty)
            if a.k in ("int", "real") and not a.opt:
                base = Ty(ty.k, ty.a, False)
                return Val(num.opt_dt(ty)[2](self.coerce(v, base, st, node, frame, spec).t), ty)
        if a.k in ("int", "real") and a.opt and ty.k in ("int", "real", "float") and not ty.opt:
            if not spec:
                self.u.oblige(st, num.opt_dt(a)[4](v.t), "safe", "none-used-as-number", {"C01"},
                              where=self.u.where(node, frame) if node is not None else None)
            return self.coerce(Val(num.opt_dt(a)[5](v.t), Ty(a.k, a.a, False)), ty, st, node, frame, spec)
        if ty.k == "real":
            if a.k == "real":
                return Val(v.t, ty)
            if a.k == "int":
                if getattr(self.u.contract, "nla", "native") == "uf" and not z3.is_int_value(z3.simplify(v.t)):
                    return Val(num.use_i2r(self.u)(v.t), ty)
                return Val(z3.ToReal(v.t), ty)
            if a.k == "bool":
                return Val(z3.If(v.t, z3.RealVal(1), z3.RealVal(0)), REAL)
            if a.k == "float":
                if not spec:
                    self.u.oblige(st, is_fin(v.t), "safe", "finite", {"C01"}, where=self.u.where(node, frame) if node is not None else None)
                return Val(xval(v.t), REAL)
        if ty.k == "float":
            if a.k == "int":
                if getattr(self.u.contract, "nla", "native") == "uf" and not z3.is_int_value(z3.simplify(v.t)):
                    return Val(fin(num.use_i2r(self.u)(v.t)), FLOAT)
                return Val(fin(z3.ToReal(v.t)), FLOAT)
            if a.k == "real":
                return Val(fin(v.t), FLOAT)
        if ty.k == "int" and a.k == "bool":
            return Val(z3.If(v.t, z3.IntVal(1), z3.IntVal(0)), INT)
        if ty.k == "int" and a.k == "int":
            return v
        if reflike(ty) or ty.k == "cls":
            if a.k == "none":
                if not ty.opt and not spec:
                    self.u.oblige(st, z3.BoolVal(False), "safe", "none-to-nonoptional", {"C01"})
                return Val(v.t, ty)
            if a.k == ty.k:
                if a.k == "list" and a.a[0].k == "unk":
                    self.materialise_empty(st, v.t, ty)
                    return Val(v.t, ty)
                if a.k == "list" and self.ct.erase(a) != self.ct.erase(ty):
                    raise Unsupported("list type clash %s vs %s" % (a, ty))
                if a.opt and not ty.opt and not spec:
                    self.u.oblige(st, v.t != 0, "safe", "none", {"C01"}, where=self.u.where(node, frame) if node is not None else None)
                return Val(v.t, ty)
        if ty.k == "fn" or a.k == "fn":
            return v
        raise Unsupported("cannot coerce %s to %s" % (a, ty))

    def materialise_empty(self, st, o, ty):
        e = self.ct.erase(ty)
        lenA = self.u.get_arr(st, "len:" + e, ty.elem)
        self.u.put_arr(st, "len:" + e, z3.Store(lenA, o, 0))

    # ================================================================== statements
    def exec_block(self, stmts, st, frame):
        """-> list of (kind, state, value); kind in next/return/raise/break/continue"""
        live = [st]
        done = []
        for s in stmts:
            if is_docstring(s):
                continue
            nxt = []
            for cur in live:
                try:
                    outs = self.exec_stmt(s, cur, frame)
                except PathEnd:
                    outs = []
                for kind, s2, v in outs:
                    if kind == "next":
                        self.apply_cuts(s, s2, frame)
                        nxt.append(s2)
                    else:
                        done.append((kind, s2, v))
            live = nxt
            if not live:
                break
        return [("next", s, None) for s in live] + done

    def stmt_tags(self, frame, s):
        key = id(frame.fdef)
        cache = self.__dict__.setdefault("_tagcache", {})
        if key not in cache:
            d, counts = {}, {}
            for x in _preorder(frame.fdef):
                tags = []
                if isinstance(x, ast.If):
                    tags.append("if")
                if isinstance(x, ast.For):
                    tags.append("for")
                if isinstance(x, ast.While):
                    tags.append("while")
                if isinstance(x, (ast.Expr, ast.Assign)) and isinstance(x.value, ast.Call) and isinstance(x.value.func, ast.Attribute):
                    tags.append("call:" + x.value.func.attr)
                out = []
                for t in tags:
                    n = counts.get(t, 0)
                    counts[t] = n + 1
                    out.append("%s#%d" % (t, n))
                if out:
                    d[id(x)] = out
            cache[key] = d
        return cache[key].get(id(s), [])

    def apply_cuts(self, s, st, frame):
        cuts = getattr(self.reg, "cuts", None) or {}
        lemmas = getattr(self.reg, "lemmas", None) or {}
        if (not cuts and not lemmas) or self.u.dry:
            return
        for tag in self.stmt_tags(frame, s):
            for cls_, why in lemmas.get((frame.qname, tag), []):
                for cl in cls_:
                    self.u.assumed.add("assumed lemma in %s after %s: %s  [%s]" % (frame.qname, tag, cl.text, why))
                    st.pc.append(self.spec(cl.text, st, frame, old=self.u.entry, assume=True))
            cls = cuts.get((frame.qname, tag), [])
            if not cls:
                continue
            for cl in cls:
                self.oblige_clause(st, cl, "cut", "%s.%s" % (tag, cl.label), frame, old=self.u.entry)
            if (frame.qname, tag) in getattr(self.reg, "strong_cuts", ()):
                # proof-outline step: forget every quantified fact gathered so far; only the cut's clauses (just proved),
                # the ground facts and the background axioms are carried on
                def quantified(f):
                    return "ForAll" in f.sexpr()[:20000] or "forall" in f.sexpr()[:20000] or "exists" in f.sexpr()[:20000]
                st.pc = [f for f in st.pc if not quantified(f)]
            for cl in cls:
                st.pc.append(self.spec(cl.text, st, frame, old=self.u.entry, assume=True))

    def feasible(self, st, extra):
        if self.u.dry:
            return True
        s = z3.Solver()
        s.set("timeout", 150)
        for h in st.pc:
            if not z3.is_quantifier(h):
                s.add(h)
        s.add(extra)
        return s.check() != z3.unsat

    def exec_stmt(self, s, st, frame):
        u = self.u
        if isinstance(s, ast.Pass) or isinstance(s, (ast.Import, ast.ImportFrom)):
            return [("next", st, None)]
        if isinstance(s, ast.Expr):
            if isinstance(s.value, ast.Call) and isinstance(s.value.func, ast.Name) and s.value.func.id == "print":
                return [("next", st, None)]
            ev = Ev(self, st, frame)
            ev.fork_node = s.value          # an inlined callee with several outcomes forks the path here (no merging)
            ev.ev(s.value)
            return [("next", ev.st, None)] + [("next", s2, None) for s2, v2 in ev.forks]
        if isinstance(s, ast.Assign):
            if len(s.targets) != 1:
                raise Unsupported("chained assignment")
            ev = Ev(self, st, frame)
            tgt = s.targets[0]
            want = self.target_type(tgt, ev)
            ev.fork_node = s.value
            v = ev.ev(s.value, want)
            outs = []
            for s2, v2 in [(ev.st, v)] + list(ev.forks):
                e2 = Ev(self, s2, frame)
                if v2 is not v and want is not None and v2.ty != want and v2.ty.k != "tuple":
                    v2 = self.coerce(v2, want, s2, s, frame)
                self.assign(tgt, v2, e2, s)
                outs.append(("next", e2.st, None))
            return outs
        if isinstance(s, ast.AugAssign):
            ev = Ev(self, st, frame)
            self.augassign(s, ev)
            return [("next", ev.st, None)]
        if isinstance(s, ast.Return):
            ev = Ev(self, st, frame)
            ev.fork_node = s.value
            v = ev.ev(s.value) if s.value is not None else None
            return [("return", ev.st, v)] + [("return", s2, v2) for s2, v2 in ev.forks]
        if isinstance(s, ast.Raise):
            exc = s.exc
            name = exc.func.id if isinstance(exc, ast.Call) else getattr(exc, "id", "Exception")
            return [("raise", st, name)]
        if isinstance(s, ast.Break):
            return [("break", st, None)]
        if isinstance(s, ast.Continue):
            return [("continue", st, None)]
        if isinstance(s, ast.If):
            ev = Ev(self, st, frame)
            c = self.truth_code(ev.ev(s.test), ev)
            st = ev.st
            outs = []
            for cond, body in ((c, s.body), (z3.Not(c), s.orelse)):
                if not self.feasible(st, cond):
                    continue
                s2 = st.fork()
                s2.pc.append(cond)
                s2.trail += "%d%s " % (s.lineno - frame.fdef.lineno, "T" if cond is c else "F")
                outs += self.exec_block(body, s2, frame) if body else [("next", s2, None)]
            return outs
        if isinstance(s, ast.While):
            return self.exec_while(s, st, frame)
        if isinstance(s, ast.For):
            return self.exec_for(s, st, frame)
        if isinstance(s, ast.FunctionDef):
            u.set_local(st, s.name, Val((s, frame, dict(st.locals)), Ty("fn", ("closure",))))
            return [("next", st, None)]
        raise Unsupported("statement %s" % type(s).__name__)

    def truth_code(self, v, ev):
        if v.ty.k == "bool":
            return v.t
        if v.ty.k == "int":
            return v.t != 0
        if v.ty.k in ("ref", "none", "dict"):
            return v.t != 0
        if v.ty.k == "list":
            if v.ty.a[0].k == "unk":
                return z3.BoolVal(False)
            if v.ty.opt:
                return z3.And(v.t != 0, ev.llen(v) > 0)
            return ev.llen(v) > 0
        if v.ty.k == "real":
            return v.t != 0
        raise Unsupported("truth value of %s" % v.ty)

    def target_type(self, tgt, ev):
        if isinstance(tgt, ast.Name):
            d = ev.frame.decl_locals.get(tgt.id)
            if d:
                return self.u.T(d)
            cur = ev.st.locals.get(tgt.id)
            if cur is not None and cur.ty.k in ("real", "float"):
                return cur.ty
            return None
        if isinstance(tgt, ast.Attribute):
            try:
                base = Ev(self, ev.st.fork(), ev.frame, spec=True).ev(tgt.value)
            except Unsupported:
                return None
            if base.ty.k == "ref":
                K, fty = self.ct.find_field(base.ty.cls, tgt.attr)
                if K:
                    return self.u.T(fty)
        return None

    def assign(self, tgt, v, ev, node):
        u, st = self.u, ev.st
        if isinstance(tgt, ast.Name):
            d = ev.frame.decl_locals.get(tgt.id)
            if d:
                v = self.coerce(v, u.T(d), st, node, ev.frame)
            else:
                cur = st.locals.get(tgt.id)
                if cur is not None and cur.ty != v.ty and v.ty.k != "tuple" and cur.ty.k not in ("fn", "tuple"):
                    try:
                        j = ty_join(cur.ty, v.ty)
                    except Unsupported:
                        j = v.ty          # a local rebound to a value of an unrelated type (x = x[0])
                    if sort_of(j) != sort_of(v.ty) or j.k in ("real", "float"):
                        v = self.coerce(v, j, st, node, ev.frame)
                    else:
                        v = Val(v.t, j)
            u.set_local(st, tgt.id, v)
            self.ltypes[(id(ev.frame.fdef), tgt.id)] = v.ty
            return
        if isinstance(tgt, ast.Attribute):
            obj = ev.ev(tgt.value)
            ev.wr_field(obj, tgt.attr, v, node)
            return
        if isinstance(tgt, ast.Subscript):
            L = ev.ev(tgt.value)
            if L.ty.k == "dict":
                k = ev.ev(tgt.slice)
                ev.dict_set(L, k, v, node)
                return
            sl = tgt.slice
            if isinstance(sl, ast.UnaryOp) and isinstance(sl.op, ast.USub):
                kk = self.coerce(ev.ev(sl.operand), INT, ev.st, node, ev.frame)
                n = ev.llen(L)
                ev.need(z3.And(kk.t >= 1, kk.t <= n), "index-store", node)
                i = Val(n - kk.t, INT)
            else:
                i = self.coerce(ev.ev(sl), INT, ev.st, node, ev.frame)
            ev.lset(L, i, v, node)
            return
        if isinstance(tgt, (ast.Tuple, ast.List)):
            if v.ty.k != "tuple" or len(v.t) != len(tgt.elts):
                raise Unsupported("destructuring of non-tuple")
            for t1, v1 in zip(tgt.elts, v.t):
                self.assign(t1, v1, ev, node)
            return
        raise Unsupported("assignment target %s" % type(tgt).__name__)

    def augassign(self, s, ev):
        tgt = s.target
        cur = ev.ev(_load(tgt))
        if cur.ty.k == "list":
            rhs = ev.ev(s.value)
            if not isinstance(s.op, ast.Add) or rhs.ty.k != "list":
                raise Unsupported("augmented assignment on list")
            ev.lextend(cur, rhs, s)
            return
        rhs = ev.ev(s.value)
        v = ev.binop(s.op, cur, rhs, s)
        self.assign(tgt, v, ev, s)

    # ------------------------------------------------------------------ loops
    def discover(self, body_runner, st):
        """dry run of a loop body: which heap arrays / locals does it write?"""
        u = self.u
        u.dry += 1
        u.wlog.append(set())
        u.llog.append(set())
        try:
            body_runner(st.fork())
        finally:
            keys = u.wlog.pop()
            names = u.llog.pop()
            u.dry -= 1
        for s in u.wlog:
            s |= keys
        for s in u.llog:
            s |= names
        return keys, names

    def loop_spec(self, frame, node):
        n = self.u.loop_id(frame, node)
        return self.reg.loops.get((frame.qname, n)), n

    def havoc_loop(self, st, keys, names, frame, loopmod=None, entry=None):
        u = self.u
        for nm in sorted(names):
            cur = st.locals.get(nm)
            ty = self.ltypes.get((id(frame.fdef), nm))
            d = frame.decl_locals.get(nm)
            if d:
                ty = u.T(d)
            if cur is None:
                continue
            if cur.ty.k in ("fn", "tuple"):
                continue
            t = ty_join(cur.ty, ty) if ty is not None else cur.ty
            if t.k == "list" and t.a[0].k == "unk":
                raise Unsupported("loop-modified local %s has unknown list type" % nm)
            c = fresh("l_" + nm, sort_of(t))
            st.locals[nm] = Val(c, t)
            st.pc += self.typing_facts(c, t.with_opt() if reflike(t) and cur.ty.k == "none" else t, st.next) if False else []
            if reflike(t):
                st.pc.append(c >= 0)
        u.havoc_keys(st, keys, frame_from=None, targets=None)
        # auto frame: slots that existed at function entry and are outside the declared targets are unchanged
        if frame.fdef is u.fdef:
            r = z3.Int("fr_r")
            for k in sorted(keys):
                if k == "next":
                    continue
                tk = "elt:" + k[4:] if k.startswith("idx:") else k
                tg = u.mod.get(tk, [])
                if tg == "*":
                    continue
                A = st.heap[k]
                A0 = u.base.get(k)
                if A0 is None:
                    continue
                conds = [r > 0, r < u.next0]
                if u.is_init and k[:2] in ("f:", "de"):
                    conds.append(r != u.self_t)
                conds += [z3.Not(c) for c in allows(tg, r)]
                st.pc.append(z3.ForAll([r], z3.Implies(z3.And(*conds), A[r] == A0[r]), qid=QID(), patterns=[A[r]]))
        if loopmod is not None:
            # loop-level frame: slots allocated before the loop and outside the loop's targets keep their loop-entry value
            r = z3.Int("fr_r")
            for k in sorted(keys):
                if k == "next":
                    continue
                tk = "elt:" + k[4:] if k.startswith("idx:") else k
                tg = loopmod.get(tk, [])
                if tg == "*":
                    continue
                A = st.heap[k]
                A0 = u.get_arr(entry, k, u.key_ty(k))
                conds = [r > 0, r < entry.next] + [z3.Not(c) for c in allows(tg, r)]
                st.pc.append(z3.ForAll([r], z3.Implies(z3.And(*conds), A[r] == A0[r]), qid=QID(), patterns=[A[r]]))
        # references held in locals stay below the allocation bound
        for nm, v in st.locals.items():
            if v.ty.k in ("ref", "list", "dict", "none") and not isinstance(v.t, tuple):
                st.pc.append(v.t < st.next)

    def run_framed(self, lm, entry, n, thunk):
        u = self.u
        if lm is None:
            return thunk()
        if not hasattr(u, "loop_frames"):
            u.loop_frames = []
        u.loop_frames.append((lm, entry.next, n))
        try:
            return thunk()
        finally:
            u.loop_frames.pop()

    def exec_while(self, s, st, frame):
        u = self.u
        L, n = self.loop_spec(frame, s)
        if s.orelse:
            raise Unsupported("while-else")

        def run_body(s0):
            ev = Ev(self, s0, frame)
            c = self.truth_code(ev.ev(s.test), ev)
            s1 = ev.st
            s1.pc.append(c)
            return self.exec_block(s.body, s1, frame)

        if u.dry:
            outs = run_body(st.fork())
            res = [("next", st, None)]
            for kind, s2, v in outs:
                if kind in ("return", "raise"):
                    res.append((kind, s2, v))
                elif kind == "break":
                    res.append(("next", s2, None))
            return res
        if L is None or L.bounded:
            return self.unroll_while(s, st, frame, L.bounded if L else None, n)
        keys, names = self.discover(run_body, st)
        entry = st.fork()
        binds = {}
        for cl in L.invariants:
            self.oblige_split(st, self.spec(cl.text, st, frame, old=u.entry, entry=entry, binds=binds, assume=False), "inv-entry",
                              "loop%d.%s" % (n, cl.label), cl.props)
        lm = self.compile_modifies(L.modifies, entry, frame, {}) if L.modifies is not None else None
        self.havoc_loop(st, keys, names, frame, lm, entry)
        for cl in L.invariants:
            st.pc.append(self.spec(cl.text, st, frame, old=u.entry, entry=entry, binds=binds))
        v0 = None
        if L.decreases:
            v0 = self.spec_val(L.decreases, st, frame, old=u.entry, entry=entry).t
        ev = Ev(self, st, frame)
        c = self.truth_code(ev.ev(s.test), ev)
        st = ev.st
        exit_st = st.fork()
        exit_st.pc.append(z3.Not(c))
        body_st = st.fork()
        body_st.pc.append(c)
        outs = self.run_framed(lm, entry, n, lambda: self.exec_block(s.body, body_st, frame))
        res = [("next", exit_st, None)]
        for kind, s2, v in outs:
            if kind in ("next", "continue"):
                u.oblige(s2, z3.BoolVal(False), "canary", "loop%d-body-end" % n, set())
                for cl in L.invariants:
                    self.oblige_split(s2, self.spec(cl.text, s2, frame, old=u.entry, entry=entry, binds=binds, assume=False), "inv-pres",
                                      "loop%d.%s" % (n, cl.label), cl.props)
                if v0 is not None:
                    v1 = self.spec_val(L.decreases, s2, frame, old=u.entry, entry=entry).t
                    u.oblige(s2, z3.And(v1 < v0, v0 >= 0), "variant", "loop%d" % n, {"C01"})
            elif kind == "break":
                res.append(("next", s2, None))
            else:
                res.append((kind, s2, v))
        if not L.decreases:
            u.bounded.append("%s loop%d: termination not proved (no variant)" % (frame.qname, n))
        return res

    def unroll_while(self, s, st, frame, k, n):
        raise Unsupported("while loop %d of %s has no invariant" % (n, frame.qname))

    def exec_for(self, s, st, frame):
        u = self.u
        L, n = self.loop_spec(frame, s)
        if s.orelse:
            raise Unsupported("for-else")
        ev = Ev(self, st, frame)
        it = s.iter
        mode = None
        if isinstance(it, ast.Call) and isinstance(it.func, ast.Name) and it.func.id == "range":
            args = [self.coerce(ev.ev(a), INT, ev.st, s, frame) for a in it.args]
            if len(args) == 1:
                lo, hi = z3.IntVal(0), args[0].t
            elif len(args) == 2:
                lo, hi = args[0].t, args[1].t
            else:
                raise Unsupported("range with step")
            mode = "range"
            cnt = z3.If(hi - lo >= 0, hi - lo, 0)
            lst = None
        else:
            lst = ev.ev(it)
            if lst.ty.k == "dict":
                from .calls import dict_keys
                lst = dict_keys(ev, lst)
            if lst.ty.k == "tuple" and lst.ty.a and lst.ty.a[0] == "dictkeys":
                raise Unsupported("dict keys")
            if lst.ty.k != "list":
                raise Unsupported("for over %s" % lst.ty)
            if lst.ty.opt:
                u.oblige(ev.st, lst.t != 0, "safe", "none", {"C01"}, where=u.where(s, frame))
            mode = "list"
            lo = z3.IntVal(0)
            cnt = ev.llen(lst)
        st = ev.st
        st = st  # noqa
        simplify = z3.simplify
        cnt = simplify(cnt)
        kname = (L.var if L and L.var else "_k")

        def bind_target(s0, k):
            e2 = Ev(self, s0, frame)
            if mode == "range":
                v = Val(lo + k, INT)
            else:
                v = e2.lget(lst, Val(k, INT), s, check=False)
            self.assign(s.target, v, e2, s)
            return e2.st

        def run_body(s0):
            k = fresh("k", I)
            s0.pc += [k >= 0, k < cnt]
            s1 = bind_target(s0, k)
            return self.exec_block(s.body, s1, frame)

        if u.dry:
            outs = run_body(st.fork())
            res = [("next", st, None)]
            for kind, s2, v in outs:
                if kind in ("return", "raise"):
                    res.append((kind, s2, v))
                elif kind == "break":
                    res.append(("next", s2, None))
            return res
        if L is None:
            raise Unsupported("for loop %d of %s has no invariant" % (n, frame.qname))
        keys, names = self.discover(run_body, st)
        names = set(names) | _target_names(s.target)
        entry = st.fork()
        # entry: k = 0
        b0 = {kname: Val(z3.IntVal(0), INT)}
        if mode == "range" and isinstance(s.target, ast.Name):
            b0[s.target.id] = Val(lo, INT)
        for cl in L.invariants:
            self.oblige_split(st, self.spec(cl.text, st, frame, old=u.entry, entry=entry, binds=b0, assume=False), "inv-entry",
                              "loop%d.%s" % (n, cl.label), cl.props)
        lm = self.compile_modifies(L.modifies, entry, frame, {}) if L.modifies is not None else None
        self.havoc_loop(st, keys, names - _target_names(s.target), frame, lm, entry)
        for nm in _target_names(s.target):
            st.locals.pop(nm, None)
        k = fresh("k", I)
        st.pc += [k >= 0, k <= cnt]
        if mode == "list":
            # the list being iterated keeps its length (checked below at the end of every iteration)
            st.pc.append(Ev(self, st, frame).llen(lst) == cnt)
        bk = {kname: Val(k, INT)}
        if mode == "range" and isinstance(s.target, ast.Name):
            bk[s.target.id] = Val(lo + k, INT)
        for cl in L.invariants:
            st.pc.append(self.spec(cl.text, st, frame, old=u.entry, entry=entry, binds=bk))
        exit_st = st.fork()
        exit_st.pc.append(k == cnt)
        if mode == "range" and isinstance(s.target, ast.Name):
            # after the loop Python leaves the target at its last value (if any iteration ran); not modelled: drop it
            exit_st.locals.pop(s.target.id, None)
        body_st = st.fork()
        body_st.pc.append(k < cnt)
        body_st = bind_target(body_st, k)
        body_st.locals["_k%d" % n] = Val(k, INT)       # visible to the invariants of nested loops
        n_obl0 = len(u.obls)
        outs = self.run_framed(lm, entry, n, lambda: self.exec_block(s.body, body_st, frame))
        # A write on a path that leaves the loop (break / return / raise) never reaches the loop head again, so it need not
        # lie inside the loop's own write frame (the state that leaves carries the write itself).  Loop-frame obligations
        # are kept only if some outcome that continues the loop extends the path they were emitted on.
        cont = [s2 for kind, s2, v in outs if kind in ("next", "continue")]

        def reaches_head(ob):
            for s2 in cont:
                if len(ob.hyps) <= len(s2.pc) and all(a is b or a.eq(b) for a, b in zip(ob.hyps, s2.pc)):
                    return True
            return False
        tag = "loop%d:" % n
        kept = u.obls[:n_obl0]
        for ob in u.obls[n_obl0:]:
            if ob.kind == "frame" and ob.label.startswith(tag) and not reaches_head(ob):
                continue
            kept.append(ob)
        u.obls[:] = kept
        res = [("next", exit_st, None)]
        for kind, s2, v in outs:
            if kind in ("next", "continue"):
                b1 = {kname: Val(k + 1, INT)}
                if mode == "range" and isinstance(s.target, ast.Name):
                    b1[s.target.id] = Val(lo + k + 1, INT)
                if mode == "list":
                    u.oblige(s2, Ev(self, s2, frame).llen(lst) == cnt, "safe", "for-list-not-resized", {"C01"},
                             where=u.where(s, frame))
                u.oblige(s2, z3.BoolVal(False), "canary", "loop%d-body-end" % n, set())
                s3 = s2.fork()
                for nm in _target_names(s.target):
                    s3.locals.pop(nm, None)
                for cl in L.invariants:
                    self.oblige_clause(s3, cl, "inv-pres", "loop%d.%s" % (n, cl.label), frame, old=u.entry, entry=entry, binds=b1)
            elif kind == "break":
                res.append(("next", s2, None))
            else:
                res.append((kind, s2, v))
        return res

    # ================================================================== calls
    def bind_args(self, fdef, args, kwargs, frame_for_defaults, st, skip_self=False):
        a = fdef.args
        names = [x.arg for x in a.args]
        if skip_self:
            names = names[1:]
        out = {}
        if len(args) > len(names):
            raise Unsupported("too many arguments for %s" % fdef.name)
        for n, v in zip(names, args):
            out[n] = v
        for k, v in kwargs.items():
            if k not in names or k in out:
                raise Unsupported("bad keyword %s for %s" % (k, fdef.name))
            out[k] = v
        defaults = a.defaults
        dn = [x.arg for x in a.args][len(a.args) - len(defaults):]
        for n, d in zip(dn, defaults):
            if n not in out and n in names:
                ev = Ev(self, st, frame_for_defaults)
                out[n] = ev.ev(d)
        for n in names:
            if n not in out:
                raise Unsupported("missing argument %s for %s" % (n, fdef.name))
        return out

    def is_trivial(self, fdef):
        body = [s for s in fdef.body if not is_docstring(s)]
        if len(body) != 1:
            return False
        s = body[0]
        if isinstance(s, ast.Pass):
            return True
        if isinstance(s, (ast.Return, ast.Assign, ast.AugAssign)):
            return not any(isinstance(x, ast.Call) for x in ast.walk(s))
        return False

    def call_function(self, K, fdef, bound, ev, node, file=None):
        """call method/function `fdef` (declared in class K or module level) with bound arguments"""
        u = self.u
        qname = (K + "." if K else "") + fdef.name
        c = self.reg.contracts.get(qname)
        if c is not None and not c.inline:
            return self.apply_contract(c, qname, bound, ev, node)
        if c is not None or self.is_trivial(fdef):
            return self.inline(K, fdef, qname, bound, ev, node, c, file)
        raise Unsupported("call to %s: no contract and not trivial" % qname)

    def inline(self, K, fdef, qname, bound, ev, node, c, file):
        u = self.u
        if u.call_depth > 6:
            raise Unsupported("inline depth exceeded at %s" % qname)
        u.inlined.add(qname)
        st = ev.st
        saved = st.locals
        fr = Frame(fdef, K, qname, decl_locals=(c.locals if c else {}), file=file or (self.ct.classes[K].file if K else None))
        st.locals = {}
        for n, v in bound.items():
            ty = None
            if c and n in c.params:
                ty = u.T(c.params[n])
            st.locals[n] = self.coerce(v, ty, st, node, ev.frame) if ty is not None else v
        n0 = len(st.pc)
        u.call_depth += 1
        try:
            outs = self.exec_block(fdef.body, st, fr)
        finally:
            u.call_depth -= 1
        normal = []
        for kind, s2, v in outs:
            if kind in ("next", "return"):
                normal.append((s2, v))
            elif kind == "raise":
                u.oblige(s2, z3.BoolVal(False), "safe", "raise-%s-in-%s" % (v, qname), {"C01"}, where=u.where(node, ev.frame))
            else:
                raise Unsupported("%s escaping %s" % (kind, qname))
        if not normal:
            raise PathEnd()
        if c is not None and c.ghost_after:
            for s2, v in normal:
                self.run_ghost(c, s2, fr)
        if len(normal) == 1:
            s2, v = normal[0]
        elif node is getattr(ev, "fork_node", None):
            s2, v = normal[0]
            for s3, v3 in normal[1:]:
                s3.locals = dict(saved)
                ev.forks.append((s3, v3 if v3 is not None else Val(z3.IntVal(0), NONE)))
        else:
            s2, v = self.merge(n0, normal)
        s2.locals = saved
        ev.st = s2
        return v if v is not None else Val(z3.IntVal(0), NONE)

    def run_ghost(self, c, st, frame):
        """ghost assignments `gfield(target) := value` of a sidecar contract; ghost state never influences real state"""
        for g in c.ghost_after:
            lhs, rhs = g.split(":=")
            lhs = lhs.strip()
            is_fresh = lhs.startswith("fresh ")
            if is_fresh:
                lhs = lhs[6:]
            name, arg = lhs.strip().split("(", 1)
            arg = arg.rsplit(")", 1)[0]
            tv = self.spec_val(arg, st, frame, old=self.u.entry)
            vv = self.spec_val(rhs.strip(), st, frame, old=self.u.entry)
            key = "g:" + name.strip()
            gty = self.u.T(self.reg.ghost_fields.get(name.strip(), "int"))
            self.u._key_ty.setdefault(key, gty)
            A = self.u.get_arr(st, key, gty)
            vv = self.coerce(vv, gty, st, None, frame, spec=True)
            if is_fresh and not self.u.dry:
                self.u.oblige(st, tv.t >= self.u.next0, "frame", "ghost-fresh:" + name.strip(), self.u.contract.props | {"C14"})
            self.u.put_arr(st, key, z3.Store(A, tv.t, vv.t))

    def merge(self, n0, outs):
        """merge several continuations of one path back into one state (ite on every differing component)"""
        conds = []
        for s, v in outs:
            d = s.pc[n0:]
            conds.append(z3.And(*d) if d else z3.BoolVal(True))
        m = outs[0][0].fork()
        m.pc = outs[0][0].pc[:n0] + [z3.Or(*conds)]
        keys = set()
        for s, v in outs:
            keys |= set(s.heap)
        for k in keys:
            vals = [self.u.get_arr(s, k, self.u.key_ty(k)) for s, v in outs]
            acc = vals[-1]
            for c, a in zip(reversed(conds[:-1]), reversed(vals[:-1])):
                acc = a if a.eq(acc) else z3.If(c, a, acc)
            m.heap[k] = acc
        acc = outs[-1][0].next
        for c, (s, v) in zip(reversed(conds[:-1]), reversed(outs[:-1])):
            acc = s.next if s.next.eq(acc) else z3.If(c, s.next, acc)
        m.next = acc
        vs = [v for s, v in outs]
        if all(v is None for v in vs):
            return m, None
        vs = [v if v is not None else Val(z3.IntVal(0), NONE) for v in vs]
        ty = vs[0].ty
        for v in vs[1:]:
            ty = ty_join(ty, v.ty)
        cv = [self.coerce(v, ty, m, None, None, spec=True) for v in vs]
        acc = cv[-1].t
        for c, v in zip(reversed(conds[:-1]), reversed(cv[:-1])):
            acc = z3.If(c, v.t, acc)
        return m, Val(acc, ty)

    def apply_contract(self, c, qname, bound, ev, node, fresh_self=False):
        u = self.u
        st = ev.st
        frame = ev.frame
        u.called.add(qname)
        if not c.verify:
            u.assumed.add("assumed contract: " + qname)
        binds = {}
        for n, v in bound.items():
            ty = u.T(c.params[n]) if n in c.params else None
            binds[n] = self.coerce(v, ty, st, node, frame) if ty is not None else v
        cl = self.all_clauses(c)
        where = u.where(node, frame)
        fr2 = Frame(frame.fdef, frame.cls, frame.qname)
        saved = st.locals
        st.locals = {}
        try:
            for r in cl["requires"]:
                g = self.spec(r.text, st, fr2, binds=binds, assume=False)
                self.oblige_split(st, g, "pre", "%s.%s" % (qname, r.label), r.props | {"C01"}, where=where)
            pre = st.fork()
            mods = cl["modifies"]
            if fresh_self:
                # the object under construction was allocated by this very call: its slots were unobservable before,
                # so the constructor's writes to them need no havoc (they are the slots' arbitrary initial content)
                mods = [m for m in mods if not m.startswith("self.*")]
            tg = self.compile_modifies(mods, pre, fr2, binds)
            # callee's write targets must be inside this unit's own frame
            for k, lst in tg.items():
                mine = u.mod.get(k, [])
                if mine == "*":
                    continue
                if lst == "*":
                    u.oblige(st, z3.BoolVal(False), "frame", "%s writes all of %s" % (qname, k), u.contract.props | {"C14"}, where=where)
                    continue
                for ent in lst:
                    if isinstance(ent[0], str) and ent[0] == "where":
                        r = z3.Int("fw_r")
                        alts = [r >= u.next0] + allows(mine, r)
                        if u.is_init and k[:2] in ("f:", "de"):
                            alts.append(r == u.self_t)
                        goal = z3.ForAll([r], z3.Implies(z3.And(r > 0, r < st.next, ent[1](r)), z3.Or(*alts)))
                        u.oblige(st, goal, "frame", "%s:%s" % (qname, k), u.contract.props | {"C14"}, where=where)
                        continue
                    g, t = ent
                    alts = [t >= u.next0] + allows(mine, t)
                    if u.is_init and k[:2] in ("f:", "de"):
                        alts.append(t == u.self_t)
                    goal = z3.Or(*alts)
                    if g is not None:
                        goal = z3.Implies(g, goal)
                    u.oblige(st, goal, "frame", "%s:%s" % (qname, k), u.contract.props | {"C14"}, where=where)
                    for (lm, bound, ln) in getattr(u, "loop_frames", []):
                        ltg = lm.get(k, [])
                        if ltg == "*":
                            continue
                        goal = z3.Or(*([t >= bound] + allows(ltg, t)))
                        if g is not None:
                            goal = z3.Implies(g, goal)
                        u.oblige(st, goal, "frame", "loop%d:%s:%s" % (ln, qname, k), u.contract.props | {"C14"}, where=where)
            keys = set(tg)
            if not c.pure:
                keys.add("next")
            u.havoc_keys(st, keys, frame_from=None, targets=tg, bound=pre.next)
            if c.returns:
                rty = u.T(c.returns)
                if rty.k == "tuple":
                    items = []
                    for t in rty.a:
                        cst = fresh("ret", sort_of(t))
                        st.pc += self.typing_facts(cst, t, st.next)
                        items.append(Val(cst, t))
                    res = Val(tuple(items), rty)
                else:
                    cst = fresh("ret", sort_of(rty))
                    st.pc += self.typing_facts(cst, rty, st.next)
                    res = Val(cst, rty)
                binds = dict(binds)
                binds["result"] = res
            else:
                res = Val(z3.IntVal(0), NONE)
            for e in cl["ensures"]:
                b2 = binds
                if e.witness:
                    b2 = dict(binds)
                    for wv, (wty, wexpr) in e.witness.items():
                        wt = u.T(wty)
                        try:
                            # a witness that is a function of the parameters / the heap is evaluated, not skolemised
                            b2[wv] = self.coerce(self.spec_val(wexpr, st, fr2, old=pre, binds=b2), wt, st, None, fr2, spec=True)
                        except Unsupported:
                            b2[wv] = Val(fresh("wit_" + wv, sort_of(wt)), wt)
                st.pc.append(self.spec(e.text, st, fr2, old=pre, binds=b2))
            if fresh_self or (getattr(u.contract, "closed_after_calls", False) and not c.pure):
                # the objects this constructor allocated occupy [pre.next, st.next): their slots were not havoced (see above),
                # so the closed-heap / typed-heap facts of the arrays have to be restated for the new allocation bound
                for key in sorted(set(st.heap) | set(u.base)):
                    if key[:2] != "f:" and key[:4] != "elt:":
                        continue
                    try:
                        ty = u.key_ty(key)
                    except KeyError:
                        continue
                    A = u.get_arr(st, key, ty)
                    st.pc += u.array_axioms(key, A, st.next, ty)
                    if key[:4] == "elt:" and reflike(ty) and not ty.opt:
                        st.pc.append(u.nonnull_axiom(u.get_arr(st, "len:" + key[4:]), A, st.next))
        finally:
            st.locals = saved
        return res


def _load(t):
    import copy
    t2 = copy.copy(t)
    t2.ctx = ast.Load()
    return t2


def _target_names(t):
    if isinstance(t, ast.Name):
        return {t.id}
    if isinstance(t, (ast.Tuple, ast.List)):
        out = set()
        for e in t.elts:
            out |= _target_names(e)
        return out
    return set()


from .ev import Ev  # noqa: E402
