"""Expression evaluation (code mode: with safety obligations and side effects; spec mode: pure logic)."""
import ast
import z3
import inspect as _insp


def QID():
    f = _insp.currentframe().f_back
    return "%s.%d" % (f.f_code.co_name, f.f_lineno)
from .ty import Ty, INT, BOOL, REAL, FLOAT, NONE, STR, parse_ty
from . import num
from .num import XR, fin, pinf, ninf, xval, is_fin, I, R, B
from .engine import Unsupported, Val, State, Frame, fresh, sort_of, reflike, str_id, cls_id, MODS
from .interp import PathEnd, ty_join, UNK, clsname, parse_expr

MEMBER_FACTS = __import__("os").environ.get("PYVC_NOMEMBER") is None
lsum = z3.Function("lsum", z3.ArraySort(I, R), I, R)
lvar = z3.Function("lvar", z3.ArraySort(I, R), I, R)


def lsum_axioms():
    a = z3.Const("ls_a", z3.ArraySort(I, R))
    n, k = z3.Ints("ls_n ls_k")
    v = z3.Real("ls_v")
    return [
        z3.ForAll([a], lsum(a, 0) == 0, qid=QID(), patterns=[lsum(a, 0)]),
        z3.ForAll([a, n], z3.Implies(n > 0, lsum(a, n) == lsum(a, n - 1) + a[n - 1]), qid=QID(), patterns=[lsum(a, n)]),
        z3.ForAll([a, n, k, v], z3.Implies(k >= n, lsum(z3.Store(a, k, v), n) == lsum(a, n)),
                  qid=QID(), patterns=[lsum(z3.Store(a, k, v), n)]),
    ]


def lvar_axioms():
    a = z3.Const("ls_a", z3.ArraySort(I, R))
    n = z3.Int("ls_n")
    return [z3.ForAll([a, n], lvar(a, n) >= 0, qid=QID(), patterns=[lvar(a, n)])]


class Ev:
    def __init__(self, it, st, frame, spec=False, old=None, entry=None, binds=None):
        self.it, self.u, self.ct, self.reg = it, it.u, it.ct, it.reg
        self.st, self.frame, self.spec = st, frame, spec
        self.old, self.entry = old, entry
        self.binds = binds or {}
        self.guard = []
        self.qctx = "spec"
        self.fork_node = None
        self.forks = []
        self.facts = []       # typed-heap side facts collected in spec mode (see Interp.spec)
        self.assume = True

    # ------------------------------------------------------------------ obligations
    def need(self, goal, label, node, props=("C01",)):
        if self.spec:
            return
        self.u.oblige(self.st, goal, "safe", label, set(props), guard=list(self.guard), where=self.u.where(node, self.frame))

    def sub(self, st=None, binds=None, spec=None):
        e = Ev(self.it, st or self.st, self.frame, self.spec if spec is None else spec, self.old, self.entry,
               dict(self.binds, **(binds or {})))
        e.guard = list(self.guard)
        e.qctx = self.qctx
        e.assume = self.assume
        e.facts = self.facts
        return e

    # ------------------------------------------------------------------ dispatcher
    def ev(self, e, want=None):
        m = getattr(self, "ev_" + type(e).__name__, None)
        if m is None:
            raise Unsupported("expression %s" % type(e).__name__)
        v = m(e, want) if type(e).__name__ in ("List", "Call", "Constant", "ListComp", "Dict") else m(e)
        if want is not None and v.ty != want and v.ty.k != "tuple":
            v = self.it.coerce(v, want, self.st, e, self.frame, spec=self.spec)
        return v

    def ev_Constant(self, e, want=None):
        c = e.value
        if c is None:
            return Val(z3.IntVal(0), NONE)
        if isinstance(c, bool):
            return Val(z3.BoolVal(c), BOOL)
        if isinstance(c, int):
            return Val(z3.IntVal(c), INT)
        if isinstance(c, float):
            return Val(z3.RealVal(repr(c)), REAL)
        if isinstance(c, str):
            return Val(z3.IntVal(str_id(c)), STR)
        raise Unsupported("constant %r" % (c,))

    def class_val(self, name):
        cid = cls_id(name)
        fact = clsname(z3.IntVal(cid)) == z3.IntVal(str_id(name))
        if not any(fact.eq(x) for x in self.u.bg):
            self.u.bg.append(fact)
        return Val(z3.IntVal(cid), Ty("cls", (name,)))

    def ev_Name(self, e):
        n = e.id
        if n in self.binds:
            return self.binds[n]
        if n in self.st.locals:
            return self.st.locals[n]
        if self.frame.closure and n in self.frame.closure:
            return self.frame.closure[n]
        if self.spec:
            if n == "inf":
                return Val(pinf, FLOAT)
            if n == "next0":
                return Val(self.u.next0, INT)
            if n == "pi":
                self.u.used.add("pi")
                return Val(num.PI, REAL)
            if n == "e":
                self.u.used.add("e")
                return Val(num.E_, REAL)
        if n in ("True", "False"):
            return Val(z3.BoolVal(n == "True"), BOOL)
        if n in self.ct.classes:
            return self.class_val(n)
        if n in MODS:
            return Val(MODS[n], Ty("mod"))
        fn = self.find_module_function(n)
        if fn is not None:
            return Val(fn, Ty("fn", ("module",)))
        if n.startswith("$") or ("$" + n) in self.u.env:
            return self.class_val(self.u.env["$" + n.lstrip("$")])
        raise Unsupported("unbound name %s in %s" % (n, self.frame.qname))

    def find_module_function(self, n):
        file = self.frame.file
        if file:
            mod = file[:-3].replace("/", ".")
            if mod + "." + n in self.ct.functions:
                return (mod + "." + n,) + self.ct.functions[mod + "." + n]
        for k, v in self.ct.functions.items():
            if k.endswith("." + n):
                return (k,) + v
        return None

    # ------------------------------------------------------------------ attributes / fields
    def ev_Attribute(self, e):
        base = self.ev(e.value)
        a = e.attr
        if base.ty.k == "mod":
            return self.mod_attr(base.t, a, e)
        if base.ty.k == "cls":
            if a == "__name__":
                return Val(clsname(base.t), STR)
            raise Unsupported("class attribute %s" % a)
        if base.ty.k == "list":
            if a == "size":
                return Val(self.llen(base), INT)
            raise Unsupported("list attribute %s" % a)
        if base.ty.k in ("ref", "none"):
            if base.ty.k == "none":
                if self.spec:
                    raise Unsupported("contract text reads .%s of a value typed None: declare the local's type in the contract" % a)
                self.need(z3.BoolVal(False), "none-deref", e)
                raise PathEnd()
            K, fty = self.ct.find_field(base.ty.cls, a)
            if K is not None:
                return self.rd_field(base, a, e)
            Km, fdef = self.ct.find_method(base.ty.cls, a)
            if fdef is not None:
                return Val((base, Km, fdef), Ty("fn", ("bound",)))
            raise Unsupported("%s has no declared field or method %s" % (base.ty.cls, a))
        raise Unsupported("attribute %s of %s" % (a, base.ty))

    def mod_attr(self, m, a, e):
        full = m + "." + a
        if full in ("np.inf", "math.inf"):
            return Val(pinf, FLOAT)
        if full in ("np.pi", "math.pi"):
            self.u.used.add("pi")
            return Val(num.PI, REAL)
        if full in ("np.e", "math.e"):
            self.u.used.add("e")
            return Val(num.E_, REAL)
        if full == "np.random":
            return Val("np.random", Ty("mod"))
        return Val(full, Ty("fn", ("lib",)))

    def field_key(self, obj, fname):
        K, fty = self.ct.find_field(obj.ty.cls, fname)
        if K is None:
            raise Unsupported("%s has no declared field %s" % (obj.ty.cls, fname))
        fty = self.u.T(fty)
        if fty.k in ("ref", "cls") and fty.a[0] == "$Self":
            fty = Ty(fty.k, (obj.ty.cls,), fty.opt)
        return K, fty, "f:%s.%s" % (K, fname)

    def rd_field(self, obj, fname, node):
        K, fty, key = self.field_key(obj, fname)
        if obj.ty.opt:
            self.need(obj.t != 0, "none-deref", node)
        A = self.u.get_arr(self.st, key, fty)
        t = A[obj.t]
        if (K, fname) in self.ct.late and not self.spec:
            D = self.u.get_arr(self.st, "def:%s.%s" % (K, fname))
            self.need(D[obj.t], "attr-defined:" + fname, node)
        if reflike(fty) and not fty.opt:
            if not self.spec:
                self.st.pc.append(z3.Implies(z3.And(*self.guard), t > 0) if self.guard else t > 0)
            else:
                self.facts.append(z3.Implies(obj.t > 0, t > 0))
        if (K, fname) in self.ct.field_inv and not (self.u.is_init_of(K) and not self.spec):
            f = self.ct.field_inv[(K, fname)][1](t)
            if not self.spec:
                self.st.pc.append(z3.Implies(z3.And(*self.guard), f) if self.guard else f)
            else:
                self.facts.append(z3.Implies(obj.t > 0, f))
        return Val(t, fty)

    def wr_field(self, obj, fname, v, node):
        K, fty, key = self.field_key(obj, fname)
        if obj.ty.opt or obj.ty.k == "none":
            self.need(obj.t != 0, "none-deref", node)
        if fty.k == "fn":
            # a function-valued field (DOO.delta): only "is it set" is tracked; calling it yields an arbitrary real
            if v.ty.k == "fn" and not isinstance(v.t, z3.ExprRef):
                v = Val(z3.IntVal(1), fty)
            elif v.ty.k in ("fn", "none"):
                v = Val(v.t, fty)
            else:
                raise Unsupported("non-function stored into function valued field %s" % fname)
        else:
            v = self.it.coerce(v, fty, self.st, node, self.frame)
        A = self.u.get_arr(self.st, key, fty)
        self.it.frame_check(self.st, key, obj.t, self.u.where(node, self.frame), self.frame)
        if (K, fname) in self.ct.field_inv:
            # immutable field with an invariant: written only by a constructor, and the invariant is checked there
            self.need(z3.BoolVal(self.frame.fdef.name == "__init__"), "immutable-field:" + fname, node, props=("C01", "C14"))
            self.need(self.ct.field_inv[(K, fname)][1](v.t), "field-invariant:" + fname, node, props=("C01", "C02", "C03"))
        self.u.put_arr(self.st, key, z3.Store(A, obj.t, v.t))
        if (K, fname) in self.ct.late:
            dk = "def:%s.%s" % (K, fname)
            D = self.u.get_arr(self.st, dk)
            self.u._key_ty.setdefault(dk, BOOL)
            self.u.put_arr(self.st, dk, z3.Store(D, obj.t, True))

    # ------------------------------------------------------------------ lists
    def lkeys(self, L):
        if L.ty.k != "list":
            raise Unsupported("list operation on %s" % L.ty)
        if L.ty.elem.k == "unk":
            raise Unsupported("list of unknown element type")
        e = self.ct.erase(L.ty)
        return e, L.ty.elem

    def llen(self, L):
        if L.ty.k == "list" and L.ty.elem.k == "unk":
            return z3.IntVal(0)
        e, el = self.lkeys(L)
        return self.u.get_arr(self.st, "len:" + e, el)[L.t]

    def lelts(self, L):
        e, el = self.lkeys(L)
        return self.u.get_arr(self.st, "elt:" + e, el)[L.t]

    def lget(self, L, i, node, check=True):
        e, el = self.lkeys(L)
        if L.ty.opt and check:
            self.need(L.t != 0, "none-subscript", node)
        n = self.llen(L)
        if check:
            self.need(z3.And(i.t >= 0, i.t < n), "index", node)
        t = self.lelts(L)[i.t]
        if not self.spec and reflike(el):
            facts = []
            if not el.opt:
                facts.append(t > 0)
            # an element read at a valid position is a member of the list: one instance of the (true) statement
            # "every stored element is found by the ghost inverse index" -- instances only, never the quantified axiom
            if MEMBER_FACTS:
                facts.append(self.contains(L, Val(t, el)))
            f = z3.Implies(z3.And(i.t >= 0, i.t < n), z3.And(*facts))
            self.st.pc.append(z3.Implies(z3.And(*self.guard), f) if self.guard else f)
        return Val(t, el)

    def contains(self, L, x):
        e, el = self.lkeys(L)
        if not reflike(el):
            raise Unsupported("`in` on a list of %s" % el)
        idx = self.u.get_arr(self.st, "idx:" + e, el)[L.t]
        n = self.llen(L)
        return z3.And(idx[x.t] >= 0, idx[x.t] < n, self.lelts(L)[idx[x.t]] == x.t)

    def _put_list(self, L, newlen=None, newelts=None, newidx=None, node=None):
        e, el = self.lkeys(L)
        u, st = self.u, self.st
        if node is not None:
            self.it.frame_check(st, "elt:" + e, L.t, u.where(node, self.frame), self.frame)
        if newlen is not None:
            u.put_arr(st, "len:" + e, z3.Store(u.get_arr(st, "len:" + e, el), L.t, newlen))
        if newelts is not None:
            u.put_arr(st, "elt:" + e, z3.Store(u.get_arr(st, "elt:" + e, el), L.t, newelts))
        if reflike(el) and newidx is not None:
            u.put_arr(st, "idx:" + e, z3.Store(u.get_arr(st, "idx:" + e, el), L.t, newidx))

    def lset(self, L, i, v, node):
        e, el = self.lkeys(L)
        if L.ty.opt:
            self.need(L.t != 0, "none-subscript", node)
        v = self.it.coerce(v, el, self.st, node, self.frame)
        n = self.llen(L)
        self.need(z3.And(i.t >= 0, i.t < n), "index-store", node)
        inner = z3.Store(self.lelts(L), i.t, v.t)
        newidx = None
        if reflike(el):
            newidx = fresh("idx", z3.ArraySort(I, I))
            self.st.pc.append(self.single_idx_axiom(inner, newidx, n))
        self._put_list(L, None, inner, newidx, node)

    def single_idx_axiom(self, inner, idx, n):
        from . import engine as _e
        if not _e.IDX_SKOLEM:
            return z3.BoolVal(True)
        k = z3.Int("ix_k")
        x = inner[k]
        return z3.ForAll([k], z3.Implies(z3.And(k >= 0, k < n), z3.And(idx[x] >= 0, idx[x] < n, inner[idx[x]] == x)),
                         qid=QID(), patterns=[inner[k]])

    def lappend(self, L, v, node):
        e, el = self.lkeys(L)
        if L.ty.opt:
            self.need(L.t != 0, "none-append", node)
        v = self.it.coerce(v, el, self.st, node, self.frame)
        n = self.llen(L)
        old = self.lelts(L)
        inner = z3.Store(old, n, v.t)
        newidx = None
        if reflike(el):
            oi = self.u.get_arr(self.st, "idx:" + e, el)[L.t]
            had = z3.And(oi[v.t] >= 0, oi[v.t] < n, old[oi[v.t]] == v.t)
            newidx = z3.Store(oi, v.t, z3.If(had, oi[v.t], n))
        self._put_list(L, n + 1, inner, newidx, node)

    def lextend(self, L, M, node):
        e, el = self.lkeys(L)
        if M.ty.elem.k == "unk":
            return
        e2, el2 = self.lkeys(M)
        if e != e2:
            raise Unsupported("extend %s with %s" % (L.ty, M.ty))
        n, m = self.llen(L), self.llen(M)
        a, b = self.lelts(L), self.lelts(M)
        inner = fresh("ext", a.sort())
        k = z3.Int("ex_k")
        self.st.pc.append(z3.ForAll([k], z3.And(z3.Implies(z3.And(k >= 0, k < n), inner[k] == a[k]),
                                                  z3.Implies(z3.And(k >= n, k < n + m), inner[k] == b[k - n])),
                                    qid=QID(), patterns=[inner[k]]))
        newidx = None
        if reflike(el):
            # exact inverse index of the concatenation (no Skolem axiom needed)
            ia = self.u.get_arr(self.st, "idx:" + e, el)[L.t]
            ib = self.u.get_arr(self.st, "idx:" + e, el)[M.t]
            newidx = fresh("idx", z3.ArraySort(I, I))
            x = z3.Int("ex_x")
            in_a = z3.And(ia[x] >= 0, ia[x] < n, a[ia[x]] == x)
            in_b = z3.And(ib[x] >= 0, ib[x] < m, b[ib[x]] == x)
            self.st.pc.append(z3.ForAll([x], newidx[x] == z3.If(in_a, ia[x], z3.If(in_b, n + ib[x], -1)),
                                        qid=QID(), patterns=[newidx[x]]))
        self._put_list(L, n + m, inner, newidx, node)

    def lalloc(self, elty, n, inner=None, want_idx=True, exact_idx=None):
        """fresh list object with length n and element array `inner`"""
        u, st = self.u, self.st
        lt = Ty("list", (elty,))
        e = self.ct.erase(lt)
        o = u.alloc(st)
        L = Val(o, lt)
        lenA = u.get_arr(st, "len:" + e, elty)
        u.put_arr(st, "len:" + e, z3.Store(lenA, o, n))
        if inner is not None:
            u.put_arr(st, "elt:" + e, z3.Store(u.get_arr(st, "elt:" + e, elty), o, inner))
            if reflike(elty):
                if exact_idx is not None:
                    idx = exact_idx
                else:
                    idx = fresh("idx", z3.ArraySort(I, I))
                    st.pc.append(self.single_idx_axiom(inner, idx, n))
                u.put_arr(st, "idx:" + e, z3.Store(u.get_arr(st, "idx:" + e, elty), o, idx))
        return L

    def ev_List(self, e, want=None):
        vals = [self.ev(x) for x in e.elts]
        elty = None
        if want is not None and want.k == "list":
            elty = want.elem
        if elty is None:
            if not vals:
                o = self.u.alloc(self.st)
                return Val(o, Ty("list", (UNK,)))
            elty = vals[0].ty
            for v in vals[1:]:
                elty = ty_join(elty, v.ty)
        vals = [self.it.coerce(v, elty, self.st, e, self.frame, spec=self.spec) for v in vals]
        e0 = self.ct.erase(Ty("list", (elty,)))
        base = self.u.get_arr(self.st, "elt:" + e0, elty)
        inner = fresh("lit", base.sort().range())
        exact = z3.K(I, z3.IntVal(-1)) if reflike(elty) else None
        for i, v in enumerate(vals):
            inner = z3.Store(inner, i, v.t)
            if exact is not None:
                exact = z3.Store(exact, v.t, i)
        return self.lalloc(elty, z3.IntVal(len(vals)), inner, exact_idx=exact)

    def ev_Dict(self, e, want=None):
        if e.keys:
            raise Unsupported("non-empty dict literal")
        if want is None or want.k != "dict":
            raise Unsupported("dict literal of unknown type")
        kty = want.a[0]
        e0 = self.ct.erase(Ty("list", (kty,)))
        base = self.u.get_arr(self.st, "elt:" + e0, kty)
        L = self.lalloc(kty, z3.IntVal(0), fresh("lit", base.sort().range()), exact_idx=z3.K(I, z3.IntVal(-1)))
        return Val(L.t, Ty("dict", want.a))

    def ev_Tuple(self, e):
        vals = tuple(self.ev(x) for x in e.elts)
        return Val(vals, Ty("tuple", tuple(v.ty for v in vals)))

    def ev_Subscript(self, e):
        base = self.ev(e.value)
        sl = e.slice
        if base.ty.k == "tuple":
            if isinstance(sl, ast.Constant) and isinstance(sl.value, int):
                return base.t[sl.value]
            raise Unsupported("tuple index")
        if base.ty.k == "dict":
            k = self.ev(sl)
            return self.dict_get(base, k, e)
        if base.ty.k != "list":
            raise Unsupported("subscript of %s" % base.ty)
        if isinstance(sl, ast.Slice):
            return self.slice(base, sl, e)
        n = self.llen(base)
        if isinstance(sl, ast.UnaryOp) and isinstance(sl.op, ast.USub):
            k = self.it.coerce(self.ev(sl.operand), INT, self.st, e, self.frame, spec=self.spec)
            if base.ty.opt:
                self.need(base.t != 0, "none-subscript", e)
            self.need(z3.And(k.t >= 1, k.t <= n), "index", e)
            return self.lget(base, Val(n - k.t, INT), e, check=False)
        i = self.it.coerce(self.ev(sl), INT, self.st, e, self.frame, spec=self.spec)
        return self.lget(base, i, e)

    def slice(self, L, sl, node):
        if sl.step is not None:
            raise Unsupported("slice step")
        n = self.llen(L)

        def bound(x, default):
            if x is None:
                return default
            if isinstance(x, ast.UnaryOp) and isinstance(x.op, ast.USub):
                k = self.ev(x.operand)
                return n - k.t
            return self.ev(x).t
        lo, hi = bound(sl.lower, z3.IntVal(0)), bound(sl.upper, n)
        self.need(z3.And(lo >= 0, hi <= n), "slice-bounds", node)
        m = z3.If(hi - lo >= 0, hi - lo, 0)
        a = self.lelts(L)
        inner = fresh("slc", a.sort())
        k = z3.Int("sl_k")
        self.st.pc.append(z3.ForAll([k], z3.Implies(z3.And(k >= 0, k < m), inner[k] == a[k + lo]), qid=QID(), patterns=[inner[k]]))
        return self.lalloc(L.ty.elem, m, inner)

    # ------------------------------------------------------------------ operators
    def ev_UnaryOp(self, e):
        v = self.ev(e.operand)
        if isinstance(e.op, ast.Not):
            return Val(z3.Not(self.it.truth_code(v, self)), BOOL)
        if isinstance(e.op, ast.USub):
            if v.ty.k == "float":
                return Val(num.xr_neg(v.t), FLOAT)
            if v.ty.k in ("int", "real"):
                return Val(-v.t, v.ty)
        if isinstance(e.op, ast.UAdd) and v.ty.isnum():
            return v
        raise Unsupported("unary %s on %s" % (type(e.op).__name__, v.ty))

    def ev_BoolOp(self, e):
        isand = isinstance(e.op, ast.And)
        terms = []
        saved = list(self.guard)
        for x in e.values:
            v = self.ev(x)
            t = self.it.truth_code(v, self) if not self.spec else self.it.truth(v)
            terms.append(t)
            self.guard.append(t if isand else z3.Not(t))
        self.guard = saved
        return Val(z3.And(*terms) if isand else z3.Or(*terms), BOOL)

    def ev_IfExp(self, e):
        c = self.ev(e.test)
        ct = self.it.truth_code(c, self) if not self.spec else self.it.truth(c)
        saved = list(self.guard)
        self.guard.append(ct)
        a = self.ev(e.body)
        self.guard = saved + [z3.Not(ct)]
        b = self.ev(e.orelse)
        self.guard = saved
        ty = ty_join(a.ty, b.ty)
        a = self.it.coerce(a, ty, self.st, e, self.frame, spec=True)
        b = self.it.coerce(b, ty, self.st, e, self.frame, spec=True)
        return Val(z3.If(ct, a.t, b.t), ty)

    def ev_BinOp(self, e):
        a = self.ev(e.left)
        if isinstance(e.op, ast.Mult) and a.ty.k == "int" and isinstance(e.right, ast.BinOp) \
                and isinstance(e.right.op, (ast.Add, ast.Sub)) and not z3.is_int_value(z3.simplify(a.t)):
            # a * (b +- c) is distributed at translation time (identity of integer multiplication); keeps VCs linear in imul terms
            b = self.ev(e.right.left)
            c = self.ev(e.right.right)
            if b.ty.k == "int" and c.ty.k == "int":
                p1 = self.binop(ast.Mult(), a, b, e)
                p2 = self.binop(ast.Mult(), a, c, e)
                return self.binop(e.right.op, p1, p2, e)
            return self.binop(e.op, a, self.binop(e.right.op, b, c, e.right), e)
        b = self.ev(e.right)
        return self.binop(e.op, a, b, e)

    def unopt(self, a, node):
        if a.ty.k in ("int", "real") and a.ty.opt:
            return self.it.coerce(a, Ty(a.ty.k, a.ty.a, False), self.st, node, self.frame, spec=self.spec)
        return a

    def num2(self, a, b, node):
        a, b = self.unopt(a, node), self.unopt(b, node)
        # a library attribute used as a number (np.euler_gamma, np.finfo(...).eps ...): an unknown real constant
        if a.ty.k == "fn" and a.ty.a == ("lib",) and isinstance(a.t, str):
            a = Val(z3.Real("k_lib_" + a.t.replace(".", "_")), REAL)
        if b.ty.k == "fn" and b.ty.a == ("lib",) and isinstance(b.t, str):
            b = Val(z3.Real("k_lib_" + b.t.replace(".", "_")), REAL)
        if not (a.ty.isnum() or a.ty.k == "bool") or not (b.ty.isnum() or b.ty.k == "bool"):
            raise Unsupported("arithmetic on %s and %s" % (a.ty, b.ty))
        if a.ty.k == "bool":
            a = self.it.coerce(a, INT, self.st, node, self.frame)
        if b.ty.k == "bool":
            b = self.it.coerce(b, INT, self.st, node, self.frame)
        ty = ty_join(a.ty, b.ty)
        return (self.it.coerce(a, ty, self.st, node, self.frame, spec=True),
                self.it.coerce(b, ty, self.st, node, self.frame, spec=True), ty)

    def binop(self, op, a, b, node):
        if isinstance(op, ast.Pow):
            return self.power(a, b, node)
        a, b, ty = self.num2(a, b, node)
        if ty.k == "float":
            if isinstance(op, ast.Add):
                self.need(num.xr_add_defined(a.t, b.t), "inf-minus-inf", node)
                return Val(num.xr_add(a.t, b.t), FLOAT)
            if isinstance(op, ast.Sub):
                nb = num.xr_neg(b.t)
                self.need(num.xr_add_defined(a.t, nb), "inf-minus-inf", node)
                return Val(num.xr_add(a.t, nb), FLOAT)
            # other operations need finite operands
            a = self.it.coerce(a, REAL, self.st, node, self.frame, spec=self.spec)
            b = self.it.coerce(b, REAL, self.st, node, self.frame, spec=self.spec)
            ty = REAL
        if isinstance(op, ast.Add):
            return Val(a.t + b.t, ty)
        if isinstance(op, ast.Sub):
            return Val(a.t - b.t, ty)
        uf = getattr(self.u.contract, "nla", "native") == "uf"
        if uf and ty.k == "real" and isinstance(op, (ast.Mult, ast.Div)):
            ca, cb = z3.simplify(a.t), z3.simplify(b.t)
            if isinstance(op, ast.Mult) and not z3.is_rational_value(ca) and not z3.is_rational_value(cb):
                return Val(num.use_rnl(self.u)[0](a.t, b.t), REAL)
            if isinstance(op, ast.Div) and not z3.is_rational_value(cb) and not z3.is_rational_value(ca):
                self.need(b.t != 0, "div-by-zero", node)
                return Val(num.use_rnl(self.u)[1](a.t, b.t), REAL)
        if isinstance(op, ast.Mult):
            if ty.k == "int" and not z3.is_int_value(z3.simplify(a.t)) and not z3.is_int_value(z3.simplify(b.t)):
                return Val(num.use_imul(self.u)(a.t, b.t), INT)
            return Val(a.t * b.t, ty)
        if isinstance(op, ast.Div):
            ar = a.t if ty.k == "real" else self.it.coerce(a, REAL, self.st, node, self.frame, spec=True).t
            br = b.t if ty.k == "real" else self.it.coerce(b, REAL, self.st, node, self.frame, spec=True).t
            self.need(br != 0, "div-by-zero", node)
            if uf and not z3.is_rational_value(z3.simplify(br)) and not z3.is_rational_value(z3.simplify(ar)):
                return Val(num.use_rnl(self.u)[1](ar, br), REAL)
            return Val(ar / br, REAL)
        if isinstance(op, ast.FloorDiv):
            if ty.k != "int":
                raise Unsupported("floor division of reals")
            self.need(b.t > 0, "floordiv-positive-divisor", node)
            if not z3.is_int_value(z3.simplify(b.t)):
                return Val(num.use_idiv(self.u)(a.t, b.t), INT)
            return Val(a.t / b.t, INT)
        if isinstance(op, ast.Mod):
            if ty.k != "int":
                raise Unsupported("modulo of reals")
            self.need(b.t > 0, "mod-positive-divisor", node)
            return Val(a.t % b.t, INT)
        raise Unsupported("operator %s" % type(op).__name__)

    def power(self, a, b, node):
        def const_int(v):
            t = z3.simplify(v.t) if v.ty.k == "int" else None
            return t.as_long() if t is not None and z3.is_int_value(t) else None
        ca, cb = const_int(a), const_int(b)
        if cb is not None and 0 <= cb <= 4 and a.ty.k in ("int", "real"):
            if cb == 0:
                return Val(z3.IntVal(1) if a.ty.k == "int" else z3.RealVal(1), a.ty)
            r = a
            for _ in range(cb - 1):
                r = self.binop(ast.Mult(), r, a, node)     # same translation as an explicit product (uf mode included)
            return r
        if ca == 2 and b.ty.k == "int":
            self.u.used.add("pow2")
            self.need(b.t >= 0, "pow2-negative-exponent", node)
            return Val(num.pow2(b.t), INT)
        if a.ty.k == "float" or b.ty.k == "float":
            raise Unsupported("power of extended reals")
        ar = self.it.coerce(a, REAL, self.st, node, self.frame, spec=True)
        br = self.it.coerce(b, REAL, self.st, node, self.frame, spec=True)
        self.u.used.add("rpow")
        self.need(ar.t > 0, "pow-positive-base", node)
        return Val(num.rpow(ar.t, br.t), REAL)

    def ev_Compare(self, e):
        left = self.ev(e.left)
        terms = []
        for op, rx in zip(e.ops, e.comparators):
            right = self.ev(rx)
            terms.append(self.compare(op, left, right, e))
            left = right
        return Val(z3.And(*terms) if len(terms) > 1 else terms[0], BOOL)

    def compare(self, op, a, b, node):
        if isinstance(op, (ast.Is, ast.IsNot, ast.Eq, ast.NotEq)):
            neg = isinstance(op, (ast.IsNot, ast.NotEq))
            for x, y in ((a, b), (b, a)):
                if x.ty.k in ("int", "real") and x.ty.opt and y.ty.k == "none":
                    t = num.opt_dt(x.ty)[3](x.t)
                    return z3.Not(t) if neg else t
            a, b = self.unopt(a, node), self.unopt(b, node)
            if a.ty.isnum() and b.ty.isnum():
                a, b, ty = self.num2(a, b, node)
                t = a.t == b.t
            elif a.ty.k == "bool" and b.ty.k == "bool":
                t = a.t == b.t
            elif (reflike(a.ty) or a.ty.k in ("none", "cls", "str", "fn")) and (reflike(b.ty) or b.ty.k in ("none", "cls", "str", "fn")) \
                    and isinstance(a.t, z3.ExprRef) and isinstance(b.t, z3.ExprRef):
                t = a.t == b.t
            else:
                raise Unsupported("comparison of %s and %s" % (a.ty, b.ty))
            return z3.Not(t) if neg else t
        if isinstance(op, (ast.In, ast.NotIn)):
            if not self.spec:
                raise Unsupported("`in` in code")
            t = self.contains(b, a)
            return z3.Not(t) if isinstance(op, ast.NotIn) else t
        a, b, ty = self.num2(a, b, node)
        if ty.k == "float":
            le, lt = num.xr_le, num.xr_lt
            if isinstance(op, ast.LtE):
                return le(a.t, b.t)
            if isinstance(op, ast.Lt):
                return lt(a.t, b.t)
            if isinstance(op, ast.GtE):
                return le(b.t, a.t)
            if isinstance(op, ast.Gt):
                return lt(b.t, a.t)
        if isinstance(op, ast.LtE):
            return a.t <= b.t
        if isinstance(op, ast.Lt):
            return a.t < b.t
        if isinstance(op, ast.GtE):
            return a.t >= b.t
        if isinstance(op, ast.Gt):
            return a.t > b.t
        raise Unsupported("comparison %s" % type(op).__name__)

    # ------------------------------------------------------------------ quantifiers (spec)
    def ev_GeneratorExp(self, e):
        raise Unsupported("generator expression outside all()/any()")

    def quant(self, gen, universal):
        vs, conds = [], []
        ev = self.sub()
        for g in gen.generators:
            if not isinstance(g.target, ast.Name):
                raise Unsupported("quantifier target")
            it = g.iter
            v = z3.Int("q_" + g.target.id + "!%d" % next(_qc))
            vs.append(v)
            if isinstance(it, ast.Call) and isinstance(it.func, ast.Name) and it.func.id == "range":
                args = [ev.ev(a) for a in it.args]
                lo, hi = (z3.IntVal(0), args[0].t) if len(args) == 1 else (args[0].t, args[1].t)
                conds += [v >= lo, v < hi]
                ev.binds[g.target.id] = Val(v, INT)
            elif isinstance(it, ast.Name) and it.id == "refs":
                ev.binds[g.target.id] = Val(v, INT)
            else:
                L = ev.ev(it)
                if L.ty.k != "list":
                    raise Unsupported("quantifier over %s" % L.ty)
                conds += [v >= 0, v < ev.llen(L)]
                ev.binds[g.target.id] = ev.lget(L, Val(v, INT), gen)
            for c in g.ifs:
                conds.append(self.it.truth(ev.ev(c)))
        ev.facts = []
        body = self.it.truth(ev.ev(gen.elt))
        if ev.facts:
            fs = _dedupe(ev.facts)
            body = z3.And(*(fs + [body])) if self.assume else z3.Implies(z3.And(*fs), body)
        g = z3.And(*conds) if conds else z3.BoolVal(True)
        pats = pick_patterns(vs, conds + [body])
        if universal:
            return z3.ForAll(vs, z3.Implies(g, body), qid=self.qctx, patterns=pats) if pats else z3.ForAll(vs, z3.Implies(g, body), qid=self.qctx + "-nopat")
        return z3.Exists(vs, z3.And(g, body))

    # ------------------------------------------------------------------ calls
    def ev_Call(self, e, want=None):
        from .calls import do_call
        return do_call(self, e, want)

    def ev_ListComp(self, e, want=None):
        from .calls import list_comp
        return list_comp(self, e, want)

    # dicts are handled in calls.py
    def dict_get(self, D, k, node):
        from .calls import dict_get
        return dict_get(self, D, k, node)

    def dict_set(self, D, k, v, node):
        from .calls import dict_set
        return dict_set(self, D, k, v, node)


def _dedupe(fs):
    out, seen = [], set()
    for f in fs:
        if f.get_id() not in seen:
            seen.add(f.get_id())
            out.append(f)
    return out


def pick_patterns(vs, exprs):
    """triggers: the smallest select-terms indexed by the bound variables themselves (no arithmetic inside)"""
    ids = {v.get_id() for v in vs}
    cands = {}
    seen = set()

    def has_var(t):
        if t.get_id() in ids:
            return True
        return any(has_var(ch) for ch in t.children()) if z3.is_app(t) else False

    def clean(t):
        """(vars contained, size) if t is built from selects / uninterpreted symbols / bound vars only, else None;
        ground subterms may be anything (they are matched as a whole, modulo equality)"""
        if t.get_id() in ids:
            return {t.get_id()}, 1
        if not has_var(t):
            return set(), 1
        if z3.is_const(t):
            if t.decl().kind() != z3.Z3_OP_UNINTERPRETED and not z3.is_int_value(t):
                return None
            return set(), 1
        if not z3.is_app(t):
            return None
        k = t.decl().kind()
        if k not in (z3.Z3_OP_SELECT, z3.Z3_OP_UNINTERPRETED):
            return None
        vv, sz = set(), 1
        for ch in t.children():
            r = clean(ch)
            if r is None:
                return None
            vv |= r[0]
            sz += r[1]
        return vv, sz

    def walk(t):
        if t.get_id() in seen:
            return
        seen.add(t.get_id())
        if z3.is_quantifier(t):
            return
        if z3.is_app(t):
            if t.decl().kind() == z3.Z3_OP_SELECT and t.arg(1).get_id() in ids:
                r = clean(t)
                if r is not None:
                    cands[t.get_id()] = (t, r[0], r[1])
            for ch in t.children():
                walk(ch)
    for e in exprs:
        walk(e)
    if not cands:
        return None
    full = [(sz, t) for (t, vv, sz) in cands.values() if vv == ids]
    if full:
        full.sort(key=lambda x: x[0])
        m = full[0][0]
        out = [t for sz, t in full if sz == m][:3]
        return out
    chosen = []
    covered = set()
    for v in vs:
        if v.get_id() in covered:
            continue
        best = None
        for (t, vv, sz) in cands.values():
            if v.get_id() in vv and (best is None or sz < best[2]):
                best = (t, vv, sz)
        if best is None:
            return None
        chosen.append(best[0])
        covered |= best[1]
    return [z3.MultiPattern(*chosen)] if len(chosen) > 1 else chosen


import itertools  # noqa: E402
_qc = itertools.count()
