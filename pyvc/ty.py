"""Static types of the verified Python subset, and the class table read from /repo."""
import ast, os, hashlib, re
from dataclasses import dataclass

REPO = os.environ.get("PYVC_REPO", "/repo")


@dataclass(frozen=True)
class Ty:
    k: str            # int bool real float none str ref list tuple cls fn dict mod
    a: tuple = ()     # ref/cls: (classname,)   list: (elem,)   tuple: items   dict: (key, val)
    opt: bool = False

    def __str__(self):
        o = "?" if self.opt else ""
        if self.k in ("ref", "cls"):
            return "%s%s:%s" % (self.k, o, self.a[0])
        if self.k == "list":
            return "list%s[%s]" % (o, self.a[0])
        if self.k == "tuple":
            return "tuple[%s]" % ",".join(map(str, self.a))
        if self.k == "dict":
            return "dict%s[%s,%s]" % (o, self.a[0], self.a[1])
        if self.k == "real" and self.a:
            return "real:" + self.a[0]
        return self.k

    @property
    def elem(self):
        return self.a[0]

    @property
    def cls(self):
        return self.a[0]

    def isnum(self):
        return self.k in ("int", "real", "float")

    def isref(self):
        return self.k in ("ref", "list", "none", "dict")

    def with_opt(self, opt=True):
        return Ty(self.k, self.a, opt)


INT, BOOL, REAL, FLOAT, NONE, STR = Ty("int"), Ty("bool"), Ty("real"), Ty("float"), Ty("none"), Ty("str")


def parse_ty(s):
    s = s.strip()
    if s in ("int", "bool", "real", "float", "none", "str"):
        return Ty(s)
    if s == "int?":
        return Ty("int", (), True)
    if s == "real?":
        return Ty("real", (), True)
    if s in ("fn", "fn?"):
        return Ty("fn", ("field",), s.endswith("?"))
    if s.startswith("real:"):
        # a nominal copy of `real` (e.g. real:reward): same values, but lists of it live in their own heap arrays, so a
        # list of rewards can never alias a list of coordinates; mixing the two list types is rejected by the front end
        return Ty("real", (s[5:],))
    m = re.match(r"^(ref|cls)(\??):(.+)$", s)
    if m:
        return Ty(m.group(1), (m.group(3).strip(),), bool(m.group(2)))
    m = re.match(r"^list(\??)\[(.*)\]$", s)
    if m:
        return Ty("list", (parse_ty(m.group(2)),), bool(m.group(1)))
    m = re.match(r"^dict(\??)\[(.*)\]$", s)
    if m:
        k, v = _split_top(m.group(2))
        return Ty("dict", (parse_ty(k), parse_ty(v)), bool(m.group(1)))
    m = re.match(r"^tuple\[(.*)\]$", s)
    if m:
        return Ty("tuple", tuple(parse_ty(x) for x in _split_top(m.group(1))))
    raise ValueError("bad type " + s)


def _split_top(s):
    out, depth, cur = [], 0, ""
    for ch in s:
        if ch == "[":
            depth += 1
        if ch == "]":
            depth -= 1
        if ch == "," and depth == 0:
            out.append(cur)
            cur = ""
        else:
            cur += ch
    out.append(cur)
    return out


def subst_ty(t, env):
    """replace $N style class variables"""
    if t.k in ("ref", "cls"):
        c = t.a[0]
        if c.startswith("$"):
            c = env[c]
        return Ty(t.k, (c,), t.opt)
    if t.k in ("list", "tuple", "dict"):
        return Ty(t.k, tuple(subst_ty(x, env) for x in t.a), t.opt)
    return t


class ClassInfo:
    def __init__(self, name, bases, node, file, module):
        self.name, self.bases, self.node, self.file, self.module = name, bases, node, file, module
        self.methods = {}
        self.static = set()
        for st in node.body:
            if isinstance(st, ast.FunctionDef):
                self.methods[st.name] = st
                for d in st.decorator_list:
                    if isinstance(d, ast.Name) and d.id == "staticmethod":
                        self.static.add(st.name)


class ClassTable:
    """All classes and module level functions of the PyXAB package, re-read from disk on every run."""

    def __init__(self, repo=None):
        self.repo = repo or REPO
        self.classes = {}
        self.functions = {}      # "module.func" and bare "func@file"
        self.files = {}          # relpath -> (sha256, source)
        self.modules = {}        # relpath -> ast.Module
        self.fields = {}         # class -> {field: Ty}
        self.late = set()        # (class, field) not necessarily assigned by __init__
        self.ghost = set()       # (class, field)
        self.field_inv = {}      # (class, field) -> (text, fn(z3 term) -> z3 bool): invariant of an immutable field
        for sub in ("partition", "algos", "synthetic_obj"):
            d = os.path.join(self.repo, "PyXAB", sub)
            for fn in sorted(os.listdir(d)):
                if fn.endswith(".py") and fn != "__init__.py":
                    self._load(os.path.join("PyXAB", sub, fn))

    def _load(self, rel):
        src = open(os.path.join(self.repo, rel)).read()
        self.files[rel] = (hashlib.sha256(src.encode()).hexdigest(), src)
        mod = ast.parse(src)
        self.modules[rel] = mod
        module = rel[:-3].replace("/", ".")
        for st in mod.body:
            if isinstance(st, ast.ClassDef):
                bases = [b.id for b in st.bases if isinstance(b, ast.Name)]
                self.classes[st.name] = ClassInfo(st.name, bases, st, rel, module)
            elif isinstance(st, ast.FunctionDef):
                self.functions[module + "." + st.name] = (st, rel)

    # ---- hierarchy
    def mro(self, c):
        out = []
        while c in self.classes:
            out.append(c)
            bs = [b for b in self.classes[c].bases if b in self.classes]
            if not bs:
                break
            c = bs[0]
        return out

    def root(self, c):
        m = self.mro(c)
        return m[-1] if m else c

    def is_sub(self, c, d):
        return d in self.mro(c)

    def find_method(self, c, name):
        for k in self.mro(c):
            if name in self.classes[k].methods:
                return k, self.classes[k].methods[name]
        return None, None

    def declare_interface(self, name, methods):
        """a sidecar-only interface (no class in /repo): method name -> parameter list; bodies are `pass`.
        Used for class-valued parameters such as POO's `algo`, whose calls are replaced by assumed interface contracts."""
        src = "class %s:\n" % name + "".join("    def %s(%s):\n        pass\n" % (m, ", ".join(ps)) for m, ps in methods.items())
        node = ast.parse(src).body[0]
        self.classes[name] = ClassInfo(name, [], node, "<interface>", "<interface>")

    def declare_fields(self, cls, late=(), ghost=(), **fl):
        d = self.fields.setdefault(cls, {})
        for k, v in fl.items():
            d[k] = parse_ty(v) if isinstance(v, str) else v
        for k in late:
            self.late.add((cls, k))
        for k in ghost:
            self.ghost.add((cls, k))

    def find_field(self, c, name):
        """-> (declaring class, Ty) or (None, None)"""
        for k in self.mro(c):
            if name in self.fields.get(k, {}):
                return k, self.fields[k][name]
        return self.infer_field(c, name)

    def infer_field(self, c, name):
        """a field that the sidecar does not declare (e.g. introduced by an edit of /repo): its type is guessed from the
        first assignment `self.<name> = <expr>` found in the class; the guess is recorded and reported in the evidence"""
        for k in self.mro(c):
            ci = self.classes.get(k)
            if ci is None:
                continue
            inits = [ci.methods[m] for m in sorted(ci.methods, key=lambda m: m != "__init__")]
            for fd in inits:
                for n in ast.walk(fd):
                    if isinstance(n, ast.Assign) and len(n.targets) == 1:
                        t = n.targets[0]
                        if isinstance(t, ast.Attribute) and t.attr == name and isinstance(t.value, ast.Name) and t.value.id == "self":
                            ty = self._guess(n.value)
                            if ty is None:
                                continue
                            self.fields.setdefault(k, {})[name] = ty
                            if fd.name != "__init__":
                                self.late.add((k, name))
                            self.inferred = getattr(self, "inferred", [])
                            self.inferred.append("%s.%s : %s (inferred from line %d)" % (k, name, ty, n.lineno))
                            return k, ty
        return None, None

    def _guess(self, e):
        if isinstance(e, ast.Constant):
            if isinstance(e.value, bool):
                return BOOL
            if isinstance(e.value, int):
                return INT
            if isinstance(e.value, float):
                return REAL
            return None
        if isinstance(e, ast.UnaryOp):
            return self._guess(e.operand)
        if isinstance(e, ast.BinOp):
            if isinstance(e.op, ast.Div):
                return REAL
            a, b = self._guess(e.left), self._guess(e.right)
            if a == INT and b == INT:
                return INT
            return REAL
        if isinstance(e, ast.Call):
            f = e.func
            nm = f.attr if isinstance(f, ast.Attribute) else getattr(f, "id", "")
            if nm in ("floor", "len", "int") and not (isinstance(f, ast.Attribute) and getattr(f.value, "id", "") == "np"):
                return INT
            if nm in ("ceil", "floor", "log", "log2", "sqrt", "power", "pow", "exp", "float", "minimum", "maximum", "abs", "fabs"):
                return REAL
            return None
        if isinstance(e, (ast.Compare, ast.BoolOp)):
            return BOOL
        if isinstance(e, (ast.Name, ast.Attribute)):
            return REAL
        return None

    def all_fields(self, c):
        out = {}
        for k in reversed(self.mro(c)):
            for f, t in self.fields.get(k, {}).items():
                out[f] = (k, t)
        return out

    def erase(self, t):
        """array-name of a type: node classes are erased to their hierarchy root"""
        if t.k in ("ref", "cls"):
            return "%s:%s" % (t.k, self.root(t.a[0]))
        if t.k == "list":
            el = t.a[0]
            return "list[%s%s]" % (self.erase(el), "?" if el.opt and el.k in ("ref", "list", "dict") else "")
        if t.k == "tuple":
            return "tuple[%s]" % ",".join(self.erase(x) for x in t.a)
        if t.k == "dict":
            return "dict[%s,%s]" % (self.erase(t.a[0]), self.erase(t.a[1]))
        if t.k == "real" and t.a:
            return "real:" + t.a[0]
        return t.k

    def span(self, fdef):
        return [fdef.lineno, fdef.end_lineno]
