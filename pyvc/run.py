"""developer driver: verify units and print the verdict of every obligation"""
import sys, time, importlib
from .ty import ClassTable
from .dsl import Registry
from .engine import Unit, Unsupported
from . import num, solve


def load(repo=None):
    ct = ClassTable(repo)
    reg = Registry()
    import contracts.types as T
    T.declare(ct)
    import pkgutil, contracts
    for m in pkgutil.iter_modules(contracts.__path__):
        if m.name != "types":
            mod = importlib.import_module("contracts." + m.name)
            if hasattr(mod, "register"):
                mod.register(reg)
    return ct, reg


def verify(ct, reg, qname, N=None, tier="quick"):
    u = Unit(ct, reg, qname, N, tier)
    obls = u.run()
    bg = u.bg + num.axioms_for(u.used)
    for o in obls:
        o.bg = getattr(o, "own_bg", bg)
    return u, obls


if __name__ == "__main__":
    ct, reg = load()
    t0 = time.time()
    allobls = []
    for a in [x for x in sys.argv[1:] if not x.startswith("-")]:
        q, _, N = a.partition("@")
        u, obls = verify(ct, reg, q, N or None)
        print("unit", u.uid, "obligations", len(obls), "gen %.1fs" % (time.time() - t0))
        allobls += obls
    only = [x[7:] for x in sys.argv if x.startswith("--only=")]
    if only:
        allobls = [o for o in allobls if any(x in o.site for x in only)]
    paths = [x[7:] for x in sys.argv if x.startswith("--path=")]
    if paths:
        allobls = [o for o in allobls if any(o.trail.strip() == x or (x.endswith("*") and o.trail.strip().startswith(x[:-1])) for x in paths)]
    if "--dump" in sys.argv:
        import os
        os.makedirs("/tmp/dump", exist_ok=True)
        for i, o in enumerate(allobls):
            open("/tmp/dump/%03d_%s.smt2" % (i, o.site.replace("/", "_").replace(":", "_")[:80]), "w").write(solve.to_smt(o, o.bg) + "(check-sat)\n")
        print("dumped", len(allobls)); sys.exit(0)
    w = solve.discharge(allobls, timeout_ms=int(__import__("os").environ.get("PYVC_TMO", "20000")), learn="--learn" in sys.argv)
    bad = 0
    for o in allobls:
        ok = (o.status == "proved") if o.kind != "canary" else (o.status != "proved" or o.label != "pre")
        if not ok or "-v" in sys.argv:
            print("%-9s %6.2fs %s <%s> [%s] %s" % (o.status, o.time, o.site, o.trail.strip(), ",".join(sorted(o.props)), o.detail[:60]))
        bad += not ok
    print("total", len(allobls), "bad", bad, "wall %.1fs" % w)
