"""pyvc engine: modular symbolic execution of real PyXAB functions against sidecar contracts.

Every run re-parses /repo; a call is replaced by the callee's contract (or, for trivial helpers
flagged `inline`, by its body), a loop by its invariant.  One named obligation per proof goal.
"""
import ast, itertools
import z3
import inspect as _insp


def QID():
    f = _insp.currentframe().f_back
    return "%s.%d" % (f.f_code.co_name, f.f_lineno)
from .ty import Ty, INT, BOOL, REAL, FLOAT, NONE, STR, parse_ty, subst_ty
from . import num
from .num import XR, fin, pinf, ninf, xval, is_fin, I, R, B


# Membership `x in L` is defined through the ghost inverse index idx[L][x] (0 <= idx < len and L[idx] is x).
# The index is maintained exactly by append / extend / literals / copies and framed for untouched lists, so membership
# facts are always derived from earlier membership facts.  The Skolem axiom "every stored element is found by idx"
# (true of every list) is NOT assumed by default: it has a self-feeding trigger (it creates the term L[idx[L][x]]).
IDX_SKOLEM = False


def allows(tg, r):
    """conditions under which a target list (from a `modifies` clause) permits writing slot r"""
    out = []
    for ent in tg:
        if isinstance(ent[0], str) and ent[0] == "where":
            out.append(ent[1](r))
        else:
            g, t = ent
            out.append(z3.And(g, r == t) if g is not None else r == t)
    return out


class Unsupported(Exception):
    pass


class Val:
    __slots__ = ("t", "ty")

    def __init__(self, t, ty):
        self.t, self.ty = t, ty

    def __repr__(self):
        return "Val(%s : %s)" % (self.t, self.ty)


class Obl:
    def __init__(self, unit, kind, label, hyps, goal, props, where=None):
        self.unit, self.kind, self.label = unit, kind, label
        self.hyps, self.goal, self.props, self.where = hyps, goal, set(props), where
        self.status = None
        self.time = 0.0
        self.backend = None
        self.detail = ""
        self.smt = None

    @property
    def site(self):
        return "%s:%s:%s" % (self.unit, self.kind, self.label)


class State:
    def __init__(self):
        self.locals = {}
        self.heap = {}
        self.pc = []
        self.next = None
        self.trail = ""

    def fork(self):
        s = State()
        s.locals = dict(self.locals)
        s.heap = dict(self.heap)
        s.pc = list(self.pc)
        s.next = self.next
        s.trail = self.trail
        return s


def sort_of(ty):
    if ty.k in ("int", "real") and ty.opt:
        return num.opt_dt(ty)[0]
    if ty.k == "bool":
        return B
    if ty.k == "real":
        return R
    if ty.k == "float":
        return XR
    return I


def reflike(ty):
    return ty.k in ("ref", "list", "dict")


_cnt = itertools.count()


def fresh(name, sort):
    return z3.Const("%s!%d" % (name, next(_cnt)), sort)


STR_IDS = {}


def str_id(s):
    if s not in STR_IDS:
        STR_IDS[s] = len(STR_IDS) + 1
    return STR_IDS[s]


CLS_IDS = {}


def cls_id(c):
    if c not in CLS_IDS:
        CLS_IDS[c] = len(CLS_IDS) + 1
    return CLS_IDS[c]


class Frame:
    """one activation: function def, owning class, qualified name, declared local types, closure"""

    def __init__(self, fdef, cls, qname, decl_locals=None, closure=None, file=None):
        self.fdef, self.cls, self.qname = fdef, cls, qname
        self.decl_locals = decl_locals or {}
        self.closure = closure
        self.file = file


def _preorder(node):
    for ch in ast.iter_child_nodes(node):
        yield ch
        yield from _preorder(ch)


def is_docstring(st):
    return isinstance(st, ast.Expr) and isinstance(st.value, ast.Constant) and isinstance(st.value.value, str)


MODS = {"np": "np", "numpy": "np", "math": "math", "copy": "copy", "random": "random", "time": "time", "pdb": "pdb"}


class Unit:
    def __init__(self, ct, reg, qname, N=None, tier="quick", env=None):
        self.ct, self.reg, self.qname, self.N, self.tier = ct, reg, qname, N, tier
        self.contract = reg.contracts[qname]
        self.env = {"$N": N or "P_node"}
        self.env.update(self.contract.env)
        if env:
            self.env.update(env)
        self.uid = qname + ("[%s]" % N if N else "")
        self.base = {}
        self.bg = []
        self.obls = []
        self.used = set(self.contract.axioms)
        self.assumed = set()
        self.inlined = set()
        self.called = set()
        self.next0 = z3.Int("next0")
        self.bg.append(self.next0 >= 1)
        self.dry = 0
        self.wlog = []      # stack of sets of heap keys written (loop write-set discovery)
        self.llog = []      # stack of sets of local names written
        self.mod = {}       # compiled modifies of this unit: key -> list[(guard, ref)] or "*"
        self.bounded = []
        self.call_depth = 0
        self.entry = None
        cls, _, fname = qname.rpartition(".")
        if cls in ct.classes:
            self.cls = cls
            k, self.fdef = ct.find_method(cls, fname)
            if self.fdef is None:
                raise Unsupported("no method %s" % qname)
            self.file = ct.classes[k].file
            self.defcls = k
        else:
            self.cls = self.defcls = None
            cands = [(k, v) for k, v in ct.functions.items() if k.endswith("." + qname) or k == qname]
            if not cands:
                raise Unsupported("no function %s" % qname)
            self.fdef, self.file = cands[0][1]
        self.loop_ids = {}

    def loop_id(self, frame, node):
        key = id(frame.fdef)
        if key not in self.loop_ids:
            d = {}
            n = 0
            for x in _preorder(frame.fdef):
                if isinstance(x, (ast.For, ast.While)):
                    d[id(x)] = n
                    n += 1
            self.loop_ids[key] = d
        return self.loop_ids[key][id(node)]

    def is_init_of(self, K):
        return self.fdef.name == "__init__" and self.cls is not None and K in self.ct.mro(self.cls)

    def T(self, s):
        """parse a type string in this unit's class-variable environment"""
        t = parse_ty(s) if isinstance(s, str) else s
        return subst_ty(t, self.env)

    # ------------------------------------------------------------------ heap arrays
    def key_sort(self, key, ty=None):
        if key.startswith("f:"):
            return z3.ArraySort(I, sort_of(ty))
        if key.startswith("len:"):
            return z3.ArraySort(I, I)
        if key.startswith("elt:"):
            return z3.ArraySort(I, z3.ArraySort(I, sort_of(ty)))
        if key.startswith("idx:"):
            return z3.ArraySort(I, z3.ArraySort(I, I))
        if key.startswith("def:"):
            return z3.ArraySort(I, B)
        if key.startswith("g:"):
            return z3.ArraySort(I, sort_of(ty) if ty is not None else I)
        if key.startswith("dv:"):           # dict values: dict object -> key object -> value
            return z3.ArraySort(I, z3.ArraySort(I, sort_of(ty)))
        raise Unsupported(key)

    def array_axioms(self, key, A, nx, ty):
        """background facts of a heap array first seen (entry state) or havoced; nx = allocation bound"""
        r, k = z3.Ints("bg_r bg_k")
        out = []
        if key.startswith("f:") and reflike(ty):
            out.append(z3.ForAll([r], z3.Implies(z3.And(r > 0, r < nx), z3.And(A[r] >= 0, A[r] < nx)), qid=QID(), patterns=[A[r]]))
        elif key.startswith("len:"):
            out.append(z3.ForAll([r], A[r] >= 0, qid=QID(), patterns=[A[r]]))
        elif (key.startswith("elt:") or key.startswith("dv:")) and reflike(ty):
            out.append(z3.ForAll([r, k], z3.Implies(z3.And(r > 0, r < nx), z3.And(A[r][k] >= 0, A[r][k] < nx)),
                                 qid=QID(), patterns=[A[r][k]]))
        return out

    def nonnull_axiom(self, lenA, eltA, nx):
        """typed heap: a list of non-optional references holds no None inside its bounds"""
        r, k = z3.Ints("bg_r bg_k")
        return z3.ForAll([r, k], z3.Implies(z3.And(r > 0, r < nx, k >= 0, k < lenA[r]), eltA[r][k] > 0),
                         qid=QID(), patterns=[eltA[r][k]])

    def idx_axiom(self, lenA, eltA, idxA):
        r, k = z3.Ints("bg_r bg_k")
        x = eltA[r][k]
        return z3.ForAll([r, k], z3.Implies(z3.And(k >= 0, k < lenA[r]),
                                            z3.And(idxA[r][x] >= 0, idxA[r][x] < lenA[r], eltA[r][idxA[r][x]] == x)),
                         qid=QID(), patterns=[eltA[r][k]])

    def key_ty(self, key):
        if key not in self._key_ty:
            if key.startswith("def:"):
                return BOOL
            if key.startswith("g:"):
                return self.T(self.reg.ghost_fields.get(key[2:], "int"))
        return self._key_ty[key]

    _key_ty = {}

    def get_arr(self, st, key, ty=None):
        if key in st.heap:
            return st.heap[key]
        if key not in self.base:
            if ty is not None:
                Unit._key_ty[key] = ty
            if key[:4] in ("len:", "elt:", "idx:"):
                self._mk_list_base(key[4:], ty)
            else:
                A = z3.Const("H0_" + key, self.key_sort(key, ty))
                self.base[key] = A
                self.bg += self.array_axioms(key, A, self.next0, ty)
        return self.base[key]

    def _mk_list_base(self, lt, elem_ty):
        for p in ("len:", "elt:", "idx:"):
            Unit._key_ty[p + lt] = elem_ty
        lenA = z3.Const("H0_len:" + lt, self.key_sort("len:"))
        eltA = z3.Const("H0_elt:" + lt, self.key_sort("elt:", elem_ty))
        self.base["len:" + lt], self.base["elt:" + lt] = lenA, eltA
        self.bg += self.array_axioms("len:" + lt, lenA, self.next0, elem_ty)
        self.bg += self.array_axioms("elt:" + lt, eltA, self.next0, elem_ty)
        if reflike(elem_ty):
            idxA = z3.Const("H0_idx:" + lt, self.key_sort("idx:"))
            self.base["idx:" + lt] = idxA
            if IDX_SKOLEM:
                self.bg.append(self.idx_axiom(lenA, eltA, idxA))
            if not elem_ty.opt:
                self.bg.append(self.nonnull_axiom(lenA, eltA, self.next0))

    def put_arr(self, st, key, A):
        st.heap[key] = A
        for s in self.wlog:
            s.add(key)

    def set_local(self, st, name, val):
        st.locals[name] = val
        for s in self.llog:
            s.add(name)

    def alloc(self, st):
        # a named constant per allocated object keeps quantifier triggers free of arithmetic
        o = fresh("obj", I)
        st.pc.append(o == st.next)
        st.next = o + 1
        for s in self.wlog:
            s.add("next")
        return o

    def havoc_keys(self, st, keys, frame_from=None, targets=None, bound=None):
        """replace the arrays `keys` by fresh ones.  With frame_from (a heap dict) and targets
        (key -> list[(guard, ref)] | '*'), assume that slots r < bound outside the targets are unchanged."""
        keys = set(keys)
        for k in list(keys):
            if k[:4] in ("len:", "elt:"):
                lt = k[4:]
                if reflike(self.key_ty(k)):
                    keys.add("idx:" + lt)
        new = {}
        for k in sorted(keys):
            if k == "next":
                continue
            ty = self.key_ty(k)
            old = self.get_arr(st, k, ty)
            A = fresh("H_" + k, old.sort())
            new[k] = (old, A, ty)
        if "next" in keys:
            nn = fresh("next", I)
            st.pc.append(nn >= st.next)
            st.next = nn
            for s in self.wlog:
                s.add("next")
        for k, (old, A, ty) in new.items():
            st.heap[k] = A
            for s in self.wlog:
                s.add(k)
            st.pc += self.array_axioms(k, A, st.next, ty)
        for k, (old, A, ty) in new.items():
            if k.startswith("idx:"):
                lt = k[4:]
                if IDX_SKOLEM:
                    st.pc.append(self.idx_axiom(self.get_arr(st, "len:" + lt), self.get_arr(st, "elt:" + lt), A))
                if not ty.opt:
                    st.pc.append(self.nonnull_axiom(self.get_arr(st, "len:" + lt), self.get_arr(st, "elt:" + lt), st.next))
        if targets is not None:
            r = z3.Int("fr_r")
            for k, (old, A, ty) in new.items():
                tk = k
                if k.startswith("idx:"):
                    tk = "elt:" + k[4:]
                tg = targets.get(tk, targets.get(k, []))
                if tg == "*":
                    continue
                src = frame_from.get(k) if frame_from is not None and k in frame_from else (old if frame_from is None else self.get_arr(State(), k, ty))
                conds = [r > 0, r < bound] + [z3.Not(c) for c in allows(tg, r)]
                st.pc.append(z3.ForAll([r], z3.Implies(z3.And(*conds), A[r] == src[r]), qid=QID(), patterns=[A[r]]))
        return new

    # ------------------------------------------------------------------ obligations
    def oblige(self, st, goal, kind, label, props, guard=(), where=None):
        if self.dry:
            return
        hyps = list(st.pc) + list(guard)
        lab = label if where is None else "%s@%s" % (label, where)
        ob = Obl(self.uid, kind, lab, hyps, goal, props, where)
        ob.trail = st.trail
        self.obls.append(ob)

    def where(self, node, frame):
        pre = ""
        if frame.fdef is not self.fdef:
            pre = frame.qname + "/"
        return "%sL%dc%d" % (pre, getattr(node, "lineno", 0) - frame.fdef.lineno, getattr(node, "col_offset", 0))

    # ------------------------------------------------------------------ running a unit
    def run(self):
        from .interp import Interp
        it = Interp(self)
        it.run_unit()
        return self.obls
