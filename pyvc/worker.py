"""Solver worker: receives an SMT-LIB2 benchmark string, returns (status, seconds, info)."""
import time, subprocess, tempfile, os


def _solver(timeout_ms, seed, strat="auto"):
    import z3
    if strat == "ematch":       # pure E-matching with a deep instantiation budget; no model-based instantiation
        z3.set_param("smt.mbqi", False)
        z3.set_param("smt.auto_config", False)
        z3.set_param("smt.qi.eager_threshold", 100.0)
        z3.set_param("smt.qi.lazy_threshold", 200.0)
        z3.set_param("smt.array.extensional", False)   # array equalities are only ever used, never proof goals
    else:
        z3.set_param("smt.array.extensional", True)
        z3.set_param("smt.mbqi", True)
        z3.set_param("smt.auto_config", True)
        z3.set_param("smt.qi.eager_threshold", 10.0)
        z3.set_param("smt.qi.lazy_threshold", 20.0)
    ctx = z3.Context()
    s = z3.Solver(ctx=ctx)
    s.set("timeout", int(timeout_ms))
    s.set("random_seed", int(seed))
    return z3, ctx, s


def run_z3(smt, timeout_ms, seed, subset=None, strat="auto"):
    t0 = time.time()
    try:
        z3, ctx, s = _solver(timeout_ms, seed, strat)
        if subset is None:
            s.from_string(smt)
        else:
            A = z3.parse_smt2_string(smt, ctx=ctx)
            n = len(A)
            for i in subset:
                if 0 <= i < n - 1:
                    s.add(A[i])
            s.add(A[n - 1])
        r = s.check()
        reason = s.reason_unknown() if r == z3.unknown else ""
        return (str(r), time.time() - t0, reason)
    except Exception as ex:  # a solver crash is never a verdict
        return ("error", time.time() - t0, repr(ex))


def run_drop(smt, timeout_ms, seed, strat="ematch"):
    """proof attempt from a pseudo-random subset of the hypotheses (about 12% dropped, deterministic in `seed`).
    z3's search on these VCs is chaotic: removing a few irrelevant hypotheses often turns a timeout into an instant proof.
    A proof from a subset of the hypotheses is a proof; `sat`/`unknown` here mean nothing."""
    import random
    t0 = time.time()
    try:
        z3, ctx, s = _solver(timeout_ms, 0, strat)
        A = z3.parse_smt2_string(smt, ctx=ctx)
        n = len(A)
        rng = random.Random(seed)
        for i in range(n - 1):
            if rng.random() >= 0.12:
                s.add(A[i])
        s.add(A[n - 1])
        r = s.check()
        return ("unsat" if r == z3.unsat else "unknown", time.time() - t0, "")
    except Exception as ex:
        return ("error", time.time() - t0, repr(ex))


def run_core(smt, timeout_ms, seed):
    """unsat core of the hypotheses (indices into the assertion list; the negated goal is the last assertion)"""
    t0 = time.time()
    try:
        z3, ctx, s = _solver(timeout_ms, seed)
        s.set("unsat_core", True)
        A = z3.parse_smt2_string(smt, ctx=ctx)
        n = len(A)
        names = {}
        for i in range(n - 1):
            p = z3.Bool("h!%d" % i, ctx=ctx)
            names["h!%d" % i] = i
            s.assert_and_track(A[i], p)
        s.add(A[n - 1])
        r = s.check()
        if r == z3.unsat:
            core = sorted(names[str(c)] for c in s.unsat_core())
        else:
            # tracked query did not finish: chunked delta-debugging from the full hypothesis set
            core = list(range(n - 1))
            chunk = max(1, len(core) // 4)
            deadline = time.time() + 4 * timeout_ms / 1000.0
            while chunk >= 1 and time.time() < deadline:
                i = 0
                progress = False
                while i < len(core) and time.time() < deadline:
                    cand = core[:i] + core[i + chunk:]
                    s2 = z3.Solver(ctx=ctx)
                    s2.set("timeout", int(timeout_ms))
                    for j in cand:
                        s2.add(A[j])
                    s2.add(A[n - 1])
                    if s2.check() == z3.unsat:
                        core = cand
                        progress = True
                    else:
                        i += chunk
                if chunk == 1:
                    break
                chunk = max(1, chunk // 2)
            if len(core) == n - 1:
                return ("unknown", time.time() - t0, [])
            return ("unsat", time.time() - t0, core)
        # greedy minimisation with a short budget per attempt
        cur = list(core)
        budget = time.time() + timeout_ms / 1000.0
        i = 0
        while i < len(cur) and time.time() < budget:
            cand = cur[:i] + cur[i + 1:]
            s2 = z3.Solver(ctx=ctx)
            s2.set("timeout", 3000)
            for j in cand:
                s2.add(A[j])
            s2.add(A[n - 1])
            if s2.check() == z3.unsat:
                cur = cand
            else:
                i += 1
        return ("unsat", time.time() - t0, cur)
    except Exception as ex:
        return ("error", time.time() - t0, [])


def run_cvc5(smt, timeout_ms):
    t0 = time.time()
    with tempfile.NamedTemporaryFile("w", suffix=".smt2", delete=False, dir=os.environ.get("PYVC_TMP", None)) as f:
        f.write("(set-logic ALL)\n" + smt)
        path = f.name
    try:
        p = subprocess.run(["/usr/bin/cvc5", "--tlimit=%d" % timeout_ms, "--full-saturate-quant", path],
                           capture_output=True, text=True, timeout=timeout_ms / 1000 + 10)
        out = p.stdout.strip().split("\n")[0] if p.stdout.strip() else "unknown"
        return (out if out in ("sat", "unsat", "unknown") else "unknown", time.time() - t0, p.stderr[:200])
    except Exception as ex:
        return ("error", time.time() - t0, repr(ex))
    finally:
        os.unlink(path)


def run(job):
    smt, timeout_ms, seed, backend = job[:4]
    if backend == "cvc5":
        return run_cvc5(smt, timeout_ms)
    if backend == "core":
        return run_core(smt, timeout_ms, seed)
    strat = job[5] if len(job) > 5 else "auto"
    if backend == "drop":
        return run_drop(smt, timeout_ms, seed, strat)
    if backend == "hint":
        return run_z3(smt, timeout_ms, seed, subset=job[4], strat=strat)
    return run_z3(smt, timeout_ms, seed, strat=strat)
