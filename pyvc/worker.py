"""Solver worker: receives an SMT-LIB2 benchmark string, returns (status, seconds, reason)."""
import time, subprocess, tempfile, os


def run_z3(smt, timeout_ms, seed):
    import z3
    t0 = time.time()
    try:
        ctx = z3.Context()
        s = z3.Solver(ctx=ctx)
        s.set("timeout", int(timeout_ms))
        s.set("random_seed", int(seed))
        s.from_string(smt)
        r = s.check()
        reason = ""
        if r == z3.unknown:
            reason = s.reason_unknown()
        return (str(r), time.time() - t0, reason)
    except Exception as ex:  # solver crash is never a verdict
        return ("error", time.time() - t0, repr(ex))


def run_cvc5(smt, timeout_ms):
    t0 = time.time()
    with tempfile.NamedTemporaryFile("w", suffix=".smt2", delete=False, dir=os.environ.get("PYVC_TMP", None)) as f:
        f.write("(set-logic ALL)\n" + smt)
        path = f.name
    try:
        p = subprocess.run(["/usr/bin/cvc5", "--tlimit=%d" % timeout_ms, "--full-saturate-quant", path],
                           capture_output=True, text=True, timeout=timeout_ms / 1000 + 10)
        out = p.stdout.strip().split("\n")[0] if p.stdout.strip() else "unknown"
        return (out if out in ("sat", "unsat", "unknown") else "unknown", time.time() - t0, p.stderr[:200])
    except Exception as ex:
        return ("error", time.time() - t0, repr(ex))
    finally:
        os.unlink(path)


def run(job):
    smt, timeout_ms, seed, backend = job
    if backend == "cvc5":
        return run_cvc5(smt, timeout_ms)
    return run_z3(smt, timeout_ms, seed)
