"""check driver: property -> units -> obligations -> verdict, evidence, known findings, replay files"""
import os, sys, json, time, hashlib, subprocess, importlib, pkgutil
from .ty import ClassTable
from .dsl import Registry
from .engine import Unit, Unsupported
from . import num, solve

ROOT = os.path.dirname(os.path.dirname(os.path.abspath(__file__)))
GLOBAL_ASSUMPTIONS = [
    "A-REAL: finite float arithmetic is treated as exact real arithmetic (no rounding, no overflow); ints are mathematical",
    "typed heap: fields/elements declared non-optional hold non-None (checked at every store and constructor exit inside "
    "the verified code; code outside PyXAB that pokes into the objects is not modelled)",
    "closed world: only the functions of /repo/PyXAB read here mutate the objects; no __eq__/__hash__/descriptor overrides "
    "(checked syntactically)",
    "Python subset semantics of DESIGN.md section 2.2 (left-to-right evaluation, list identity, in-place += on lists)",
    "unallocated heap slots are unobservable: a callee's writes to objects it allocates are modelled as the (arbitrary) "
    "initial content of those slots",
    "hints only select a subset of hypotheses (unsat core of an earlier run); proving from a subset is a proof",
]


def load(repo=None):
    ct = ClassTable(repo)
    reg = Registry()
    import contracts.types as T
    T.declare(ct)
    import contracts
    for m in sorted(pkgutil.iter_modules(contracts.__path__), key=lambda m: m.name):
        if m.name != "types":
            mod = importlib.import_module("contracts." + m.name)
            if hasattr(mod, "register"):
                mod.register(reg)
    return ct, reg


def verify(ct, reg, qname, N=None, tier="quick"):
    u = Unit(ct, reg, qname, N, tier)
    obls = u.run()
    c = reg.contracts[qname]
    if N is not None and c.N_light and N != c.N[0]:
        # the generic part of this function is proved once (first N); for the other node classes only the obligations
        # that depend on the node constructor are kept
        obls = [o for o in obls if "NI" in o.props or "__init__/" in (o.label or "") or o.kind == "canary"]
        u.obls = obls
    bg = u.bg + num.axioms_for(u.used)
    for o in obls:
        o.bg = getattr(o, "own_bg", bg)
    return u, obls


def select_units(reg, prop):
    out = []
    for q, c in sorted(reg.contracts.items()):
        if c.abstract or not c.verify or c.inline:
            continue
        props = set(c.props)
        for cl in c.requires + c.ensures:
            props |= cl.props
        for (lq, n), l in reg.loops.items():
            if lq == q:
                props |= l.props
                for cl in l.invariants:
                    props |= cl.props
        if prop in props or prop == "ALL" or prop == "C14":      # C14: the write-frame obligations of every function under contract
            for N in c.N:
                out.append((q, N))
    return out


def known_findings():
    p = os.path.join(ROOT, "known_findings.json")
    try:
        return json.load(open(p))
    except Exception:
        return []


def check_property(prop, tier, seed, learn=False):
    t0 = time.time()
    ct, reg = load()
    units = select_units(reg, prop)
    extra = []
    for name, f in sorted(getattr(reg, "syntactic", {}).items()):
        if prop in f.props:
            extra.append((name, f))
    repo = os.environ.get("PYVC_REPO")
    obls, infos, undecided, crashes = solve.generate([(q, N, prop, tier, repo) for q, N in units])
    if crashes:
        for c in crashes:
            print(c)
        print("CHECKER-ERROR property=%s: the obligation generator crashed on %d unit(s) (not a verdict)" % (prop, len(crashes)))
        return 3
    uinfo = []
    assumed, bounded, inlined, inferred = set(), [], set(), set()
    for r in infos:
        assumed |= set(r["assumed"])
        bounded += r["bounded"]
        inlined |= set(r["inlined"])
        inferred |= set(r.get("inferred", []))
        uinfo.append({"function": r["uid"], "file": r["file"], "sha256": r["sha"], "span": r["span"],
                      "obligations": len([o for o in r["obls"] if o["kind"] != "canary"]), "calls_by_contract": r["called"],
                      "generation_s": round(r.get("gen_s", 0), 2)})
    tm = {"quick": (20000, ((40000, 1),), True), "thorough": (60000, ((120000, 1), (120000, 7)), True)}[tier]
    solve.discharge(obls, timeout_ms=tm[0], seed=seed, retries=tm[1], use_cvc5=tm[2], learn=learn)
    # syntactic obligations (effect whitelist, symbol absence ...): decided without a solver
    syn_results = []
    for name, f in extra:
        for r in f(ct, reg, prop):
            syn_results.append(r)
    real = [o for o in obls if o.kind != "canary"]
    canaries = [o for o in obls if o.kind == "canary"]
    # `False` provable right after the preconditions = vacuous contract (checker error).  `False` provable at the end of one
    # path only means that this path is infeasible (dead branch); it is an error only if *every* path end of a unit is.
    vacuous = [o for o in canaries if o.status == "proved" and o.label == "pre"]
    by_unit = {}
    for o in canaries:
        if o.label != "pre":
            by_unit.setdefault(o.unit, []).append(o)
    for uname, cs in by_unit.items():
        if cs and all(o.status == "proved" for o in cs):
            vacuous += cs
    dead_paths = [o for o in canaries if o.status == "proved" and o not in vacuous]
    failing = [o for o in real if o.status != "proved"]
    syn_fail = [r for r in syn_results if not r["ok"]]
    kf = []
    for k in known_findings():
        if k.get("property") == prop and k.get("status") == "known":
            # a known finding suppresses its obligation only while its recorded witness still fails on the real code
            w = k.get("witness")
            if w:
                try:
                    rc = subprocess.call(["/venv/bin/python", os.path.join(ROOT, w)], stdout=subprocess.DEVNULL, stderr=subprocess.DEVNULL, timeout=120)
                except Exception:
                    rc = -1
                if rc != 1:
                    print("NOTE: the witness of known finding %s no longer reproduces (exit %s); the entry is ignored" % (k["obligation"], rc))
                    continue
            kf.append(k)
    known_hit, new_fail = {}, []
    for o in failing:
        hit = None
        for k in kf:
            if o.site.startswith(k["obligation"]):
                hit = k
                break
        if hit:
            known_hit.setdefault(hit["obligation"], (hit, []))[1].append(o)
        else:
            new_fail.append(o)
    new_syn = []
    for r in syn_fail:
        hit = None
        for k in kf:
            if r["id"].startswith(k["obligation"]):
                hit = k
        if hit:
            known_hit.setdefault(hit["obligation"], (hit, []))[1].append(r)
        else:
            new_syn.append(r)
    nobl = len(real) + len(syn_results)
    ndis = len([o for o in real if o.status == "proved"]) + len([r for r in syn_results if r["ok"]])
    by_backend = {}
    for o in real:
        if o.status == "proved":
            by_backend[o.backend] = by_backend.get(o.backend, 0) + 1
    if syn_results:
        by_backend["syntactic"] = len([r for r in syn_results if r["ok"]])
    samples = []
    for o in sorted(real, key=lambda o: -o.time)[:3] + real[:3]:
        samples.append({"obligation": o.site, "path": o.trail.strip(), "status": o.status, "backend": o.backend,
                        "seconds": round(o.time, 2), "hypotheses": o.nhyp, "smt_bytes": len(o.smt or "")})
    for r in syn_results[:3]:
        samples.append({"obligation": r["id"], "status": "proved" if r["ok"] else "failed", "backend": "syntactic"})
    status = 0
    lines = []
    for key, (k, os_) in known_hit.items():
        lines.append("KNOWN-FINDING: property=%s %s [%s]" % (prop, k["what"], k["obligation"]))
    viol = 0
    replays = []
    if vacuous:
        lines.append("CHECKER-ERROR vacuous preconditions: %s" % ", ".join(o.site for o in vacuous))
        status = 3
    if not nobl and not undecided:
        lines.append("CHECKER-ERROR property=%s generated zero obligations" % prop)
        status = 3
    if new_fail or new_syn:
        from . import replay
        groups = {}
        for o in new_fail:
            groups.setdefault(o.site, []).append(o)
        for r in new_syn:
            groups.setdefault(r["id"], []).append(r)
        path, found = replay.make_replay(prop, groups, tier, seed)
        viol = len(groups)
        lines.append("VIOLATION property=%s replay=%s%s" % (prop, path, "" if found else " no-failing-input-found"))
        for site in sorted(groups):
            lines.append("  failed obligation: %s" % site)
        replays.append(path)
        status = max(status, 1) if status != 3 else 3
    if undecided and status == 0:
        # the contracts of these functions could not be checked (code left the supported subset).  The same contract clauses
        # are still evaluated at run time on the real code: a failing history found there is a replayed violation.
        from . import replay
        groups = {"undecided:" + x.split(":")[0]: [{"detail": x}] for x in undecided}
        path, found = replay.make_replay(prop, groups, tier, seed)
        if found:
            viol = len(groups)
            lines.append("VIOLATION property=%s replay=%s" % (prop, path))
            for x in undecided:
                lines.append("  contract not checkable statically (%s); violated at run time, see replay" % x)
            status = 1
        else:
            status = 2
            for x in undecided:
                lines.append("UNDECIDED property=%s %s" % (prop, x))
    standin = getattr(reg, "bounded_standin", {}).get(prop)
    if standin and status in (0, 2):
        # part of this property is NOT under contract: a bounded run-time check of that part stands in (labelled bounded)
        from . import replay
        bud = standin["quick_s"] if tier == "quick" else standin["thorough_s"]
        path, ran = replay.cross_check(prop, seed, budget=bud, tag="bounded")
        bounded.append({"what": standin["what"], "bound": "random histories for 0.8 * %d s (at most %d histories), seed %d (%s)" % (bud, 400 * bud, seed, standin["searcher"]),
                        "counted_as_proof": False})
        if path:
            viol = 1
            lines.append("VIOLATION property=%s replay=%s" % (prop, path))
            lines.append("  found by the bounded run-time check that stands in for the part of %s not under contract" % prop)
            status = 1
    if tier == "thorough" and status == 0 and not standin:
        # cross-check of the proof by a bounded run-time evaluation of the same clauses on the real code
        from . import replay
        path, ran = replay.cross_check(prop, seed)
        if ran:
            bounded.append({"what": "run-time contract monitor rt/search_%s.py on random histories of the real code (cross-check of the "
                                    "proof, not counted as proof)" % prop, "bound": "150 s, seed %d" % seed})
        if path:
            viol = 1
            lines.append("VIOLATION property=%s replay=%s" % (prop, path))
            lines.append("  found by the run-time contract monitor; no proof obligation failed (the contracts do not cover this behaviour)")
            status = 1
    ev = {
        "property_id": prop, "tier": tier, "seed": seed, "level": "other" if standin else "proof",
        "coverage": {
            "obligations": nobl - sum(len(v[1]) for v in known_hit.values()),
            "discharged": ndis,
            "checker_cmd": "./check %s --%s" % (prop, tier),
            "trusted_base": sorted(assumed) + ["z3 %s (python3-vt)" % _z3v(), "cvc5 1.0.3 (second opinion on z3's unknowns)",
                                                "pyvc: the AST->VC generator of /verif/pyvc (its own soundness is trusted; "
                                                "cross-checked by selftest mutants and the runtime contract monitor)"],
            "functions_under_contract": uinfo,
            "by_backend": by_backend,
            "solver_seconds": round(sum(o.time for o in obls), 1),
            "bounded": bounded,
            "inlined_helpers": sorted(inlined),
            "field_types_inferred_from_source": sorted(inferred),
            "known_finding_obligations": {k: len(v[1]) for k, v in known_hit.items()},
            "undecided": undecided,
            "vacuity_canaries": {"checked": len(canaries), "provable_false": len(vacuous), "infeasible_paths": len(dead_paths)},
            "samples": samples,
            "explanation": "every obligation is a z3 query generated from the current /repo source of the listed functions; "
                           "'discharged' counts unsat answers only"
                           + ("; MIXED LEVEL: the functions listed under functions_under_contract are proved, the part listed under "
                              "'bounded' is only checked at run time within the stated bound and is not counted as proved" if standin else ""),
        },
        "assumptions": GLOBAL_ASSUMPTIONS + sorted(assumed) + reg.assumptions.get(prop, []),
        "wall_s": round(time.time() - t0, 1),
        "violations": viol,
    }
    os.makedirs(os.path.join(ROOT, "evidence"), exist_ok=True)
    json.dump(ev, open(os.path.join(ROOT, "evidence", prop + ".json"), "w"), indent=1)
    for l in lines:
        print(l)
    print("property=%s tier=%s obligations=%d discharged=%d known=%d undecided=%d wall=%.1fs exit=%d" % (
        prop, tier, nobl, ndis, sum(len(v[1]) for v in known_hit.values()), len(undecided), time.time() - t0, status))
    return status


def _z3v():
    import z3
    return z3.get_version_string()
