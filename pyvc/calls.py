"""Calls: spec builtins, library functions with assumed contracts (the trusted base), methods, constructors."""
import ast
import z3
import inspect as _insp


def QID():
    f = _insp.currentframe().f_back
    return "%s.%d" % (f.f_code.co_name, f.f_lineno)
from .ty import Ty, INT, BOOL, REAL, FLOAT, NONE, STR
from . import num
from .num import XR, fin, pinf, ninf, xval, is_fin, I, R, B
from .engine import Unsupported, Val, State, Frame, fresh, sort_of, reflike, str_id
from .interp import PathEnd, ty_join, UNK, parse_expr
from .ev import lsum, lvar, lsum_axioms, lvar_axioms

SPECFNS = {}
ARITY = z3.Function("arity_of", I, I)
_ar = z3.Int("ar_p")


def specfn(name):
    def deco(f):
        SPECFNS[name] = f
        return f
    return deco


def _real(ev, v, node):
    return ev.it.coerce(v, REAL, ev.st, node, ev.frame, spec=ev.spec)


def _int(ev, v, node):
    return ev.it.coerce(v, INT, ev.st, node, ev.frame, spec=ev.spec)


def ceil_int(x):
    return -z3.ToInt(-x)


KIDX = z3.Function("kidx", I, I, I, I)
TPLUS = z3.Function("tplus", I, R)   # t+(x) = 2 ** ceil(log2 x): the value computed by compute_t_plus (its contract ties the two)


def use_kidx(u):
    """kidx(K, a, j) = K*a - (K-j-1): index of the j-th child of cell a; injective for 0 <= j < K (lemma, proved by z3)"""
    if "kidx" in u.used:
        return
    u.used.add("kidx")
    K, a, b, j, j2 = z3.Ints("kx_K kx_a kx_b kx_j kx_j2")
    IM = num.use_imul(u)
    u.bg.append(z3.ForAll([K, a, j], KIDX(K, a, j) == IM(K, a) - (K - j - 1), qid="kidx-def", patterns=[KIDX(K, a, j)]))
    u.bg.append(z3.ForAll([a, j], KIDX(2, a, j) == 2 * a - (1 - j), qid="kidx-def2", patterns=[KIDX(2, a, j)]))
    u.bg.append(z3.ForAll([K, a, b, j, j2], z3.Implies(z3.And(K >= 1, j >= 0, j < K, j2 >= 0, j2 < K, KIDX(K, a, j) == KIDX(K, b, j2)),
                                                      z3.And(a == b, j == j2)),
                          qid="kidx-injective", patterns=[z3.MultiPattern(KIDX(K, a, j), KIDX(K, b, j2))]))
    from .engine import Obl
    lem = z3.ForAll([K, a, b, j, j2], z3.Implies(z3.And(K >= 1, j >= 0, j < K, j2 >= 0, j2 < K,
                                                     K * a - (K - j - 1) == K * b - (K - j2 - 1)), z3.And(a == b, j == j2)))
    ob = Obl(u.uid, "lemma", "kidx-injective", [], lem, {"C03"})
    ob.own_bg = []
    ob.trail = ""
    if not u.dry:
        u.obls.append(ob)


LMAXB = z3.Function("lmaxb", z3.ArraySort(I, XR), z3.ArraySort(I, I), I, XR)
LMAXW = z3.Function("lmaxb_w", z3.ArraySort(I, XR), z3.ArraySort(I, I), I, I, XR, I)


def use_lmaxb(u):
    """lmaxb(B, E, k) = max of B[E[0]], ..., B[E[k-1]] over the extended reals (-inf for k = 0).
    Facts (each true of that function): the empty prefix; one unfolding step between two prefixes that both occur;
    it is an upper bound of every element of the prefix and attained when k > 0;
    if a single-cell update of B changes the value then the updated cell is one of E[0..k) (witness position w)."""
    if "lmaxb" in u.used:
        return
    u.used.add("lmaxb")
    Bv = z3.Const("lm_B", z3.ArraySort(I, XR))
    E = z3.Const("lm_E", z3.ArraySort(I, I))
    k, k2, x, j = z3.Ints("lm_k lm_k2 lm_x lm_j")
    v = z3.Const("lm_v", XR)
    u.bg.append(z3.ForAll([Bv, E], LMAXB(Bv, E, 0) == ninf, qid="lmaxb-0", patterns=[LMAXB(Bv, E, 0)]))
    u.bg.append(z3.ForAll([Bv, E, k, k2], z3.Implies(z3.And(k >= 0, k2 == k + 1),
                                                    LMAXB(Bv, E, k2) == num.xr_max(LMAXB(Bv, E, k), Bv[E[k]])),
                          qid="lmaxb-step", patterns=[z3.MultiPattern(LMAXB(Bv, E, k), LMAXB(Bv, E, k2))]))
    u.bg.append(z3.ForAll([Bv, E, k, j], z3.Implies(z3.And(j >= 0, j < k), num.xr_le(Bv[E[j]], LMAXB(Bv, E, k))),
                          qid="lmaxb-ub", patterns=[z3.MultiPattern(LMAXB(Bv, E, k), Bv[E[j]])]))
    u.bg.append(z3.ForAll([Bv, E, k], z3.Implies(k >= 1, num.xr_le(Bv[E[0]], LMAXB(Bv, E, k))),
                          qid="lmaxb-first", patterns=[LMAXB(Bv, E, k)]))
    w = LMAXW(Bv, E, k, x, v)
    u.bg.append(z3.ForAll([Bv, E, k, x, v], z3.Implies(LMAXB(z3.Store(Bv, x, v), E, k) != LMAXB(Bv, E, k),
                                                      z3.And(w >= 0, w < k, E[w] == x)),
                          qid="lmaxb-frame", patterns=[LMAXB(z3.Store(Bv, x, v), E, k)]))


AMF = z3.Function("argmax_first", z3.ArraySort(I, R), I, I)


def argmax_first(ev, E, n):
    """index of the first maximal element of E[0..n) (n > 0): the value of np.argmax"""
    u = ev.u
    if "amf" not in u.used:
        u.used.add("amf")
        a = z3.Const("am_E", z3.ArraySort(I, R))
        m, k = z3.Ints("am_n am_k")
        r = AMF(a, m)
        u.bg.append(z3.ForAll([a, m], z3.Implies(m > 0, z3.And(r >= 0, r < m)), qid="argmax-range", patterns=[AMF(a, m)]))
        u.bg.append(z3.ForAll([a, m, k], z3.Implies(z3.And(m > 0, k >= 0, k < m), z3.And(a[k] <= a[r], z3.Implies(k < r, a[k] < a[r]))),
                              qid="argmax-max", patterns=[z3.MultiPattern(AMF(a, m), a[k])]))
    return AMF(E, n)


def use_lsum(ev):
    if "lsum" not in ev.u.used:
        ev.u.used.add("lsum")
        ev.u.bg += lsum_axioms()


# ====================================================================== dispatcher
def do_call(ev, e, want):
    f = e.func
    kwargs_ast = {k.arg: k.value for k in e.keywords}
    if isinstance(f, ast.Name):
        n = f.id
        if ev.spec and n not in ev.st.locals and n not in ev.binds:
            r = spec_call(ev, n, e)
            if r is not None:
                return r
        if n in ("len", "min", "max", "abs", "float", "int", "sorted", "print", "range", "super", "sum", "bool", "list"):
            if n not in ev.st.locals:
                return builtin_call(ev, n, e, want)
    # library function?
    if isinstance(f, ast.Attribute):
        # super(X, self).__init__(...)
        if isinstance(f.value, ast.Call) and isinstance(f.value.func, ast.Name) and f.value.func.id == "super":
            return super_call(ev, f, e)
        # list / dict methods and object methods
        base = ev.ev(f.value)
        if base.ty.k == "mod":
            full = base.t + "." + f.attr
            args = [ev.ev(a) for a in e.args]
            kw = {k: ev.ev(v) for k, v in kwargs_ast.items()}
            return lib_call(ev, full, args, kw, e, want)
        if base.ty.k == "list":
            return list_method(ev, base, f.attr, e)
        if base.ty.k == "dict":
            return dict_method(ev, base, f.attr, e)
        if base.ty.k == "ref":
            K, fty = ev.ct.find_field(base.ty.cls, f.attr)
            if K is not None:
                fv = ev.rd_field(base, f.attr, f)
                return call_value(ev, fv, e, kwargs_ast, want)
            Km, fdef = ev.ct.find_method(base.ty.cls, f.attr)
            if fdef is None:
                raise Unsupported("%s has no method %s" % (base.ty.cls, f.attr))
            if base.ty.opt:
                ev.need(base.t != 0, "none-call", e)
            args = [ev.ev(a) for a in e.args]
            kw = {k: ev.ev(v) for k, v in kwargs_ast.items()}
            static = f.attr in ev.ct.classes[Km].static
            bound = ev.it.bind_args(fdef, ([] if static else [base]) + args, kw, Frame(fdef, Km, Km + "." + f.attr,
                                    file=ev.ct.classes[Km].file), ev.st)
            return ev.it.call_function(Km, fdef, bound, ev, e)
        if base.ty.k == "none":
            ev.need(z3.BoolVal(False), "none-call", e)
            raise PathEnd()
        raise Unsupported("method call on %s" % base.ty)
    fv = ev.ev(f)
    return call_value(ev, fv, e, kwargs_ast, want)


def call_value(ev, fv, e, kwargs_ast, want):
    args = [ev.ev(a) for a in e.args]
    kw = {k: ev.ev(v) for k, v in kwargs_ast.items()}
    if fv.ty.k == "cls":
        return construct(ev, fv, args, kw, e)
    if fv.ty.k == "fn":
        kind = fv.ty.a[0]
        if kind == "field":
            ev.u.assumed.add("a function stored in a field (DOO.delta: the default delta_init or the user's delta) is assumed to be a total, "
                             "side-effect-free function returning a finite real; its value is arbitrary")
            ev.need(fv.t != 0, "call-of-None", e)
            return Val(fresh("fnres", R), REAL)
        if kind == "lib":
            return lib_call(ev, fv.t, args, kw, e, want)
        if kind == "module":
            qn, fdef, file = fv.t
            bound = ev.it.bind_args(fdef, args, kw, Frame(fdef, None, qn, file=file), ev.st)
            return ev.it.call_function(None, fdef, bound, ev, e, file=file)
        if kind == "bound":
            base, Km, fdef = fv.t
            bound = ev.it.bind_args(fdef, [base] + args, kw, Frame(fdef, Km, Km + "." + fdef.name), ev.st)
            return ev.it.call_function(Km, fdef, bound, ev, e)
        if kind == "closure":
            fdef, fr, clo = fv.t
            bound = ev.it.bind_args(fdef, args, kw, fr, ev.st)
            qn = fr.qname + "." + fdef.name
            c = ev.reg.contracts.get(qn)
            st = ev.st
            saved = st.locals
            fr2 = Frame(fdef, fr.cls, qn, decl_locals=(c.locals if c else {}), closure=clo, file=fr.file)
            st.locals = dict(bound)
            outs = ev.it.exec_block(fdef.body, st, fr2)
            normal = [(s2, v) for k, s2, v in outs if k in ("next", "return")]
            if len(normal) != len(outs):
                raise Unsupported("closure raising")
            s2, v = normal[0] if len(normal) == 1 else ev.it.merge(len(st.pc), normal)
            s2.locals = saved
            ev.st = s2
            return v
    raise Unsupported("call of %s" % fv.ty)


def construct(ev, cv, args, kw, node):
    C = cv.ty.cls
    if C.startswith("$"):
        C = ev.u.env[C]
    K, init = ev.ct.find_method(C, "__init__")
    o = ev.u.alloc(ev.st)
    obj = Val(o, Ty("ref", (C,)))
    if init is None:
        return obj
    c = ev.reg.contracts.get(C + ".__init__")
    if c is not None and getattr(c, "anyargs", False):
        # abstract constructor of a class-valued parameter: keyword arguments are matched against the contract's parameter list
        bad = [k for k in kw if k not in c.params]
        if bad or args:
            raise Unsupported("constructor call of %s with arguments %s not in its abstract contract" % (C, bad or "positional"))
        bound = dict(kw)
        bound["self"] = obj
        ev.it.apply_contract(c, C + ".__init__", bound, ev, node, fresh_self=True)
        return obj
    bound = ev.it.bind_args(init, [obj] + args, kw, Frame(init, K, K + ".__init__", file=ev.ct.classes[K].file), ev.st)
    # an abstract class-valued parameter: its constructor contract is registered under the static class name
    if c is not None and not c.inline:
        ev.it.apply_contract(c, C + ".__init__", bound, ev, node, fresh_self=True)
    else:
        c2 = ev.reg.contracts.get(K + ".__init__")
        if c2 is not None and not c2.inline:
            ev.it.apply_contract(c2, K + ".__init__", bound, ev, node, fresh_self=True)
        else:
            ev.it.call_function(K, init, bound, ev, node)
    return obj


def super_call(ev, f, e):
    sup = f.value
    if len(sup.args) == 1:
        return Val(z3.IntVal(0), NONE)       # super(X).__init__(): unbound super object, calls object.__init__
    X = sup.args[0].id if sup.args else ev.frame.cls
    mro = ev.ct.mro(X)
    selfv = ev.ev(sup.args[1]) if len(sup.args) > 1 else ev.st.locals["self"]
    for K in mro[1:]:
        if f.attr in ev.ct.classes[K].methods:
            fdef = ev.ct.classes[K].methods[f.attr]
            args = [ev.ev(a) for a in e.args]
            kw = {k.arg: ev.ev(k.value) for k in e.keywords}
            bound = ev.it.bind_args(fdef, [selfv] + args, kw, Frame(fdef, K, K + "." + f.attr, file=ev.ct.classes[K].file), ev.st)
            return ev.it.call_function(K, fdef, bound, ev, e)
    return Val(z3.IntVal(0), NONE)


# ====================================================================== builtins
def builtin_call(ev, n, e, want):
    if n == "print":
        return Val(z3.IntVal(0), NONE)
    args = [ev.ev(a) for a in e.args]
    if n == "len":
        v = args[0]
        if v.ty.k == "dict":
            return Val(ev.llen(dict_keys(ev, v)), INT)
        if v.ty.k != "list":
            raise Unsupported("len of %s" % v.ty)
        if v.ty.opt:
            ev.need(v.t != 0, "none-len", e)
        return Val(ev.llen(v), INT)
    if n in ("min", "max"):
        if len(args) != 2:
            raise Unsupported("%s with %d args" % (n, len(args)))
        return minmax(ev, n, args[0], args[1], e)
    if n == "abs":
        v = args[0]
        if v.ty.k not in ("int", "real"):
            raise Unsupported("abs of %s" % v.ty)
        return Val(z3.If(v.t >= 0, v.t, -v.t), v.ty)
    if n == "float":
        return _real(ev, args[0], e)
    if n == "list":
        L = args[0]
        if L.ty.k != "list":
            raise Unsupported("list() of %s" % L.ty)
        if L.ty.elem.k == "unk":
            return Val(ev.u.alloc(ev.st), L.ty)
        ex = None
        if reflike(L.ty.elem):
            ex = ev.u.get_arr(ev.st, "idx:" + ev.ct.erase(L.ty), L.ty.elem)[L.t]
        return ev.lalloc(L.ty.elem, ev.llen(L), ev.lelts(L), exact_idx=ex)
    if n == "bool":
        return Val(ev.it.truth_code(args[0], ev), BOOL)
    if n == "sorted":
        from .sorting import sorted_call
        return sorted_call(ev, e, args)
    raise Unsupported("builtin %s" % n)


def minmax(ev, n, a, b, node):
    a, b, ty = ev.num2(a, b, node)
    if ty.k == "float":
        return Val(num.xr_max(a.t, b.t) if n == "max" else num.xr_min(a.t, b.t), FLOAT)
    if n == "max":
        return Val(z3.If(a.t >= b.t, a.t, b.t), ty)
    return Val(z3.If(a.t <= b.t, a.t, b.t), ty)


# ====================================================================== spec-level functions
def spec_call(ev, n, e):
    it = ev.it
    if n == "old" or n == "entry":
        st = ev.old if n == "old" else ev.entry
        if st is None:
            raise Unsupported("%s() without such a state" % n)
        e2 = ev.sub(st=st)
        # bound variables stay visible, plain locals come from the other state
        return e2.ev(e.args[0])
    if n in ("all", "any"):
        g = e.args[0]
        if not isinstance(g, ast.GeneratorExp):
            raise Unsupported("all/any need a generator")
        return Val(ev.quant(g, n == "all"), BOOL)
    if n == "implies":
        a = it.truth(ev.ev(e.args[0]))
        b = it.truth(ev.ev(e.args[1]))
        return Val(z3.Implies(a, b), BOOL)
    if n == "iff":
        a = it.truth(ev.ev(e.args[0]))
        b = it.truth(ev.ev(e.args[1]))
        return Val(a == b, BOOL)
    if n == "fresh":
        v = ev.ev(e.args[0])
        base = ev.old.next if ev.old is not None else ev.u.next0
        return Val(z3.And(v.t >= base, v.t < ev.st.next), BOOL)
    if n == "allocated":
        v = ev.ev(e.args[0])
        return Val(z3.And(v.t > 0, v.t < ev.st.next), BOOL)
    if n == "isfin":
        v = ev.ev(e.args[0])
        return Val(is_fin(v.t) if v.ty.k == "float" else z3.BoolVal(True), BOOL)
    if n == "defined":
        a = e.args[0]
        obj = ev.ev(a.value)
        K, fty = ev.ct.find_field(obj.ty.cls, a.attr)
        if (K, a.attr) not in ev.ct.late:
            return Val(z3.BoolVal(True), BOOL)
        D = ev.u.get_arr(ev.st, "def:%s.%s" % (K, a.attr))
        ev.u._key_ty.setdefault("def:%s.%s" % (K, a.attr), BOOL)
        return Val(D[obj.t], BOOL)
    if n == "lsum":
        L = ev.ev(e.args[0])
        use_lsum(ev)
        k = ev.ev(e.args[1]).t if len(e.args) > 1 else ev.llen(L)
        return Val(lsum(ev.lelts(L), k), REAL)
    if n == "lvar":
        L = ev.ev(e.args[0])
        if "lvar" not in ev.u.used:
            ev.u.used.add("lvar")
            ev.u.bg += lvar_axioms()
        return Val(lvar(ev.lelts(L), ev.llen(L)), REAL)
    if n == "same_elems":        # same_elems(L, old(L)) : element arrays equal (extensional)
        a, b = ev.ev(e.args[0]), ev.ev(e.args[1])
        sa = ev.lelts(a)
        sb = ev.sub(st=ev.old).lelts(b) if False else None
        raise Unsupported("same_elems")
    if n in ("sqrt", "ln", "exp", "sin", "cos"):
        x = _real(ev, ev.ev(e.args[0]), e)
        ev.u.used.add(n)
        f = {"sqrt": num.sqrt_, "ln": num.ln, "exp": num.exp_, "sin": num.sin_, "cos": num.cos_}[n]
        return Val(f(x.t), REAL)
    if n == "rpow":
        x, y = _real(ev, ev.ev(e.args[0]), e), _real(ev, ev.ev(e.args[1]), e)
        ev.u.used.add("rpow")
        return Val(num.rpow(x.t, y.t), REAL)
    if n == "pow2":
        ev.u.used.add("pow2")
        return Val(num.pow2(_int(ev, ev.ev(e.args[0]), e).t), INT)
    if n == "ceil":
        return Val(ceil_int(_real(ev, ev.ev(e.args[0]), e).t), INT)
    if n == "floor":
        return Val(z3.ToInt(_real(ev, ev.ev(e.args[0]), e).t), INT)
    if n == "keys":
        return dict_keys(ev, ev.ev(e.args[0]))
    if n == "real":
        return _real(ev, ev.ev(e.args[0]), e)
    if n == "xr":
        return ev.it.coerce(ev.ev(e.args[0]), FLOAT, ev.st, e, ev.frame, spec=True)
    if n == "tplus":
        x = _int(ev, ev.ev(e.args[0]), e).t
        if "tplus" not in ev.u.used:
            ev.u.used.add("tplus")
            k = z3.Int("tp_x")
            # positivity for arguments >= 1 is the proved postcondition of compute_t_plus (whose result tplus names)
            ev.u.bg.append(z3.ForAll([k], z3.Implies(k >= 1, TPLUS(k) > 0), qid="tplus-pos", patterns=[TPLUS(k)]))
        return Val(TPLUS(x), REAL)
    if n == "kidx":
        K, a, j = [_int(ev, ev.ev(x), e).t for x in e.args]
        use_kidx(ev.u)
        return Val(KIDX(K, a, j), INT)
    if n == "arity_of":
        v = ev.ev(e.args[0])
        t = ARITY(v.t)
        fact = z3.ForAll([_ar], ARITY(_ar) >= 2, qid=QID(), patterns=[ARITY(_ar)])
        if "arity" not in ev.u.used:
            ev.u.used.add("arity")
            ev.u.bg.append(fact)
        return Val(t, INT)
    if n == "is_class":
        v = ev.ev(e.args[0])
        return Val(z3.BoolVal(True), BOOL)
    if n == "pos":
        L = ev.ev(e.args[0])
        x = ev.ev(e.args[1])
        e0, el = ev.lkeys(L)
        return Val(ev.u.get_arr(ev.st, "idx:" + e0, el)[L.t][x.t], INT)
    if n == "argmax_first":
        L = ev.ev(e.args[0])
        return Val(argmax_first(ev, ev.lelts(L), ev.llen(L)), INT)
    if n == "lmaxb":
        L = ev.ev(e.args[0])
        k = _int(ev, ev.ev(e.args[1]), e).t if len(e.args) > 1 else ev.llen(L)
        K, fty, key = ev.field_key(Val(z3.IntVal(0), L.ty.elem), "b_value")
        Barr = ev.u.get_arr(ev.st, key, fty)
        use_lmaxb(ev.u)
        return Val(LMAXB(Barr, ev.lelts(L), k), FLOAT)
    if n in ("xmin", "xmax"):
        a = ev.it.coerce(ev.ev(e.args[0]), FLOAT, ev.st, e, ev.frame, spec=True)
        b = ev.it.coerce(ev.ev(e.args[1]), FLOAT, ev.st, e, ev.frame, spec=True)
        return Val(num.xr_min(a.t, b.t) if n == "xmin" else num.xr_max(a.t, b.t), FLOAT)
    if n in getattr(ev.reg, "ghost_fields", ()):
        v = ev.ev(e.args[0])
        gty = ev.u.T(ev.reg.ghost_fields[n])
        ev.u._key_ty.setdefault("g:" + n, gty)
        A = ev.u.get_arr(ev.st, "g:" + n, gty)
        return Val(A[v.t], gty)
    if n in getattr(ev.reg, "opaques", {}):
        return opaque_call(ev, n, e)
    if n in SPECFNS:
        return SPECFNS[n](ev, e)
    if n in ev.reg.preds:
        return pred_call(ev, n, e)
    return None


_OPQ = {}


def opaque_call(ev, n, e):
    from .ty import parse_ty
    ps, text, ret = ev.reg.opaques[n]
    tys = [parse_ty(t) for _, t in ps]
    rty = parse_ty(ret)
    if n not in _OPQ:
        _OPQ[n] = z3.Function("opq_" + n, *([sort_of(t) for t in tys] + [sort_of(rty)]))
    f = _OPQ[n]
    args = [ev.it.coerce(ev.ev(a), t, ev.st, e, ev.frame, spec=True) for a, t in zip(e.args, tys)]
    u = ev.u
    if text is not None and n in u.contract.reveal and ("reveal:" + n) not in u.used:
        u.used.add("reveal:" + n)
        if (n + "_z") in ev.reg.opaques:
            # recursive definition with one level of fuel: the body mentions NAME_z, a synonym that is never unfolded
            if (n + "_z") not in _OPQ:
                _OPQ[n + "_z"] = z3.Function("opq_" + n + "_z", *([sort_of(t) for t in tys] + [sort_of(rty)]))
            vz = [z3.Const("oz_%s_%s" % (n, nm), sort_of(t)) for (nm, _), t in zip(ps, tys)]
            u.bg.append(z3.ForAll(vz, f(*vz) == _OPQ[n + "_z"](*vz), qid="fuel-" + n, patterns=[f(*vz)]))
        vs = [z3.Const("oq_%s_%s" % (n, nm), sort_of(t)) for (nm, _), t in zip(ps, tys)]
        binds = {nm: Val(v, t) for (nm, _), v, t in zip(ps, vs, tys)}
        st0 = State()
        st0.next = u.next0
        body = ev.it.coerce(ev.it.spec_val(text, st0, Frame(ev.frame.fdef, None, "opaque:" + n), binds=binds), rty, st0, e, ev.frame, spec=True)
        u.bg.append(z3.ForAll(vs, f(*vs) == body.t, qid="reveal-" + n, patterns=[f(*vs)]))
    return Val(f(*[a.t for a in args]), rty)


def pred_call(ev, n, e):
    args = [ev.ev(a) for a in e.args]
    cands = ev.reg.preds[n]
    chosen = None
    if any(p.cls for p in cands):
        c0 = args[0].ty.cls if args and args[0].ty.k == "ref" else None
        # dispatch on the node class of the unit when the first argument is a generic node
        for K in (ev.ct.mro(c0) if c0 else []):
            for p in cands:
                if p.cls == K:
                    chosen = p
                    break
            if chosen:
                break
    if chosen is None:
        for p in cands:
            if p.cls is None:
                chosen = p
    if chosen is None:
        raise Unsupported("predicate %s has no case for %s" % (n, [str(a.ty) for a in args]))
    if len(args) != len(chosen.params):
        raise Unsupported("predicate %s arity" % n)
    e2 = ev.sub()
    e2.qctx = n
    for p, a in zip(chosen.params, args):
        e2.binds[p] = a
    # predicates see only their parameters (plus bound variables already in scope)
    saved = e2.st.locals
    st2 = e2.st.fork()
    st2.locals = {}
    e2.st = st2
    if e2.old is not None:
        pass
    return e2.ev(parse_expr(chosen.text))


# ====================================================================== list / dict methods
def list_method(ev, L, name, e):
    if ev.spec:
        raise Unsupported("list method in spec")
    if name == "append":
        v = ev.ev(e.args[0])
        if L.ty.elem.k == "unk":
            # the element type of an empty literal is fixed by its first append
            nt = Ty("list", (v.ty,), L.ty.opt)
            ev.it.materialise_empty(ev.st, L.t, nt)
            L2 = Val(L.t, nt)
            _retype_local(ev, e.func.value, L2)
            L = L2
        ev.lappend(L, v, e)
        return Val(z3.IntVal(0), NONE)
    if name == "reverse":
        if L.ty.elem.k == "unk":
            return Val(z3.IntVal(0), NONE)
        n = ev.llen(L)
        a = ev.lelts(L)
        inner = fresh("rev", a.sort())
        k = z3.Int("rv_k")
        ev.st.pc.append(z3.ForAll([k], z3.Implies(z3.And(k >= 0, k < n), inner[k] == a[n - 1 - k]), qid=QID(), patterns=[inner[k]]))
        newidx = None
        if reflike(L.ty.elem):
            newidx = fresh("idx", z3.ArraySort(I, I))
            ev.st.pc.append(ev.single_idx_axiom(inner, newidx, n))
        ev._put_list(L, None, inner, newidx, e)
        return Val(z3.IntVal(0), NONE)
    raise Unsupported("list method %s" % name)


def _retype_local(ev, target, newval):
    if isinstance(target, ast.Name) and target.id in ev.st.locals:
        ev.u.set_local(ev.st, target.id, newval)
        ev.it.ltypes[(id(ev.frame.fdef), target.id)] = newval.ty
    elif isinstance(target, ast.Attribute):
        pass
    else:
        raise Unsupported("append to an untyped empty list that is not a local")


def dict_keys(ev, D):
    """the key list of a dict: the dict object doubles as the (insertion-ordered) list of its keys.  Keys are objects compared
    by identity (closed world: no __eq__/__hash__ overrides), so `k in d` is the ghost inverse index of that list."""
    if D.ty.k != "dict":
        raise Unsupported("dict operation on %s" % D.ty)
    if not reflike(D.ty.a[0]):
        raise Unsupported("dict keyed by %s (only object keys are modelled)" % D.ty.a[0])
    return Val(D.t, Ty("list", (D.ty.a[0],), D.ty.opt))


def _dv(ev, D):
    key = "dv:" + ev.ct.erase(D.ty)
    ev.u._key_ty[key] = D.ty.a[1]
    return key, ev.u.get_arr(ev.st, key, D.ty.a[1])


def dict_method(ev, D, name, e):
    if name == "keys" and not e.args:
        return dict_keys(ev, D)
    raise Unsupported("dict method %s" % name)


def dict_get(ev, D, k, node):
    K = dict_keys(ev, D)
    k = ev.it.coerce(k, D.ty.a[0], ev.st, node, ev.frame, spec=ev.spec)
    if not ev.spec:
        if D.ty.opt:
            ev.need(D.t != 0, "none-subscript", node)
        ev.need(ev.contains(K, k), "key-error", node)
    key, A = _dv(ev, D)
    t = A[D.t][k.t]
    vty = D.ty.a[1]
    if not ev.spec and reflike(vty) and not vty.opt:
        f = z3.Implies(ev.contains(K, k), t > 0)
        ev.st.pc.append(z3.Implies(z3.And(*ev.guard), f) if ev.guard else f)
    return Val(t, vty)


def dict_set(ev, D, k, v, node):
    if ev.spec:
        raise Unsupported("dict store in spec")
    K = dict_keys(ev, D)
    e, el = ev.lkeys(K)
    k = ev.it.coerce(k, D.ty.a[0], ev.st, node, ev.frame)
    v = ev.it.coerce(v, D.ty.a[1], ev.st, node, ev.frame)
    if D.ty.opt:
        ev.need(D.t != 0, "none-subscript", node)
    if not D.ty.a[0].opt:
        ev.need(k.t > 0, "none-key", node)
    n = ev.llen(K)
    old = ev.lelts(K)
    oi = ev.u.get_arr(ev.st, "idx:" + e, el)[D.t]
    had = z3.And(oi[k.t] >= 0, oi[k.t] < n, old[oi[k.t]] == k.t)
    key, A = _dv(ev, D)
    ev.it.frame_check(ev.st, key, D.t, ev.u.where(node, ev.frame), ev.frame)
    # (conservative: the key list must be in the write frame even when the key is already present)
    ev.it.frame_check(ev.st, "elt:" + e, D.t, ev.u.where(node, ev.frame), ev.frame)
    mode = getattr(ev.u.contract, "dictstore", "either")
    if mode == "update":
        # the contract declares that this function only overwrites existing entries: proved per store, then no case split
        ev.need(had, "dict-store-existing-key", node)
        ev.st.pc.append(z3.Implies(z3.And(*ev.guard), had) if ev.guard else had)
    elif mode == "insert":
        ev.need(z3.Not(had), "dict-store-new-key", node)
        ev.st.pc.append(z3.Implies(z3.And(*ev.guard), z3.Not(had)) if ev.guard else z3.Not(had))
        ev._put_list(K, n + 1, z3.Store(old, n, k.t), z3.Store(oi, k.t, n), None)
    else:
        inner = z3.If(had, old, z3.Store(old, n, k.t))
        newidx = z3.Store(oi, k.t, z3.If(had, oi[k.t], n))
        ev._put_list(K, z3.If(had, n, n + 1), inner, newidx, None)
    ev.u.put_arr(ev.st, key, z3.Store(A, D.t, z3.Store(A[D.t], k.t, v.t)))
    return Val(z3.IntVal(0), NONE)


def list_comp(ev, e, want):
    raise Unsupported("list comprehension")


# ====================================================================== library (assumed contracts)
def lib_call(ev, full, args, kw, node, want):
    u, st = ev.u, ev.st
    A = u.assumed

    def real(i):
        return _real(ev, args[i], node).t
    if full in ("np.array",):
        if args[0].ty.k != "list":
            raise Unsupported("np.array of %s" % args[0].ty)
        return args[0]
    if full in ("np.sum",):
        L = args[0]
        use_lsum(ev)
        A.add("np.sum(np.array(L)) == lsum(L)")
        if L.ty.elem.k == "unk":
            return Val(z3.RealVal(0), REAL)
        return Val(lsum(ev.lelts(L), ev.llen(L)), REAL)
    if full in ("np.average", "np.mean"):
        L = args[0]
        use_lsum(ev)
        A.add("np.average/np.mean(L) == lsum(L)/len(L), len(L) > 0")
        n = ev.llen(L)
        ev.need(n > 0, "mean-of-empty", node)
        return ev.binop(ast.Div(), Val(lsum(ev.lelts(L), n), REAL), Val(n, INT), node)
    if full == "np.var":
        L = args[0]
        if "lvar" not in u.used:
            u.used.add("lvar")
            u.bg += lvar_axioms()
        A.add("np.var(L) == lvar(L) >= 0 (uninterpreted population variance)")
        ev.need(ev.llen(L) > 0, "var-of-empty", node)
        return Val(lvar(ev.lelts(L), ev.llen(L)), REAL)
    if full == "np.argmax":
        L = args[0]
        A.add("np.argmax(np.array(L)): the first index of a maximal element (L non-empty)")
        n = ev.llen(L)
        ev.need(n > 0, "argmax-of-empty", node)
        if L.ty.elem.k != "real":
            raise Unsupported("np.argmax of a list of %s" % L.ty.elem)
        return Val(argmax_first(ev, ev.lelts(L), n), INT)
    if full in ("np.maximum", "np.minimum"):
        return minmax(ev, "max" if full.endswith("maximum") else "min", args[0], args[1], node)
    if full in ("np.ceil", "math.ceil"):
        t = ceil_int(real(0))
        return _real(ev, Val(t, INT), node) if full.startswith("np") else Val(t, INT)
    if full in ("np.floor", "math.floor"):
        t = z3.ToInt(real(0))
        return _real(ev, Val(t, INT), node) if full.startswith("np") else Val(t, INT)
    if full in ("np.log", "math.log", "np.log2"):
        x = real(0)
        u.used.add("ln")
        ev.need(x > 0, "log-domain", node)
        if full == "np.log2":
            return Val(num.ln(x) / num.ln(2), REAL)
        if len(args) == 2:
            b = real(1)
            ev.need(z3.And(b > 0, b != 1), "log-base", node)
            return Val(num.ln(x) / num.ln(b), REAL)
        return Val(num.ln(x), REAL)
    if full in ("np.sqrt", "math.sqrt"):
        x = real(0)
        u.used.add("sqrt")
        ev.need(x >= 0, "sqrt-domain", node)
        return Val(num.sqrt_(x), REAL)
    if full in ("np.power", "math.pow"):
        return ev.power(args[0], args[1], node) if False else _power(ev, args[0], args[1], node)
    if full == "np.exp":
        u.used.add("exp")
        return Val(num.exp_(real(0)), REAL)
    if full == "np.sin":
        u.used.add("sin")
        return Val(num.sin_(real(0)), REAL)
    if full == "np.cos":
        u.used.add("cos")
        return Val(num.cos_(real(0)), REAL)
    if full in ("np.abs", "np.fabs", "math.fabs"):
        x = real(0)
        return Val(z3.If(x >= 0, x, -x), REAL)
    if full.startswith("np.random.") and getattr(u.contract, "rng", True) is False:
        ev.need(z3.BoolVal(False), "rng-call-in-pure-function:" + full, node, props=tuple(u.contract.props))
    if full == "np.random.randint":
        A.add("np.random.randint(a,b) returns an arbitrary integer r with a <= r < b")
        if len(args) == 1:
            lo, hi = z3.IntVal(0), _int(ev, args[0], node).t
        else:
            lo, hi = _int(ev, args[0], node).t, _int(ev, args[1], node).t
        ev.need(lo < hi, "randint-empty-range", node)
        r = fresh("randint", I)
        st.pc += [r >= lo, r < hi]
        return Val(r, INT)
    if full == "np.random.uniform":
        A.add("np.random.uniform(a,b) returns an arbitrary real r between a and b (inclusive)")
        a, b = real(0), real(1)
        r = fresh("uniform", R)
        st.pc.append(z3.Or(z3.And(a <= r, r <= b), z3.And(b <= r, r <= a)))
        return Val(r, REAL)
    if full == "np.random.normal":
        A.add("np.random.normal returns an arbitrary finite real")
        return Val(fresh("normal", R), REAL)
    if full == "np.linspace":
        A.add("np.linspace(a,b,num=n): n values, [0]=a, [n-1]=b, [i]=a+i*(b-a)/(n-1)")
        a, b = real(0), real(1)
        n = _int(ev, kw["num"] if "num" in kw else args[2], node).t
        ev.need(n >= 2, "linspace-num", node)
        e0 = ev.ct.erase(Ty("list", (REAL,)))
        base = u.get_arr(st, "elt:" + e0, REAL)
        inner = fresh("linspace", base.sort().range())
        k = z3.Int("ls_i")
        st.pc.append(z3.ForAll([k], z3.Implies(z3.And(k >= 0, k < n), inner[k] == a + z3.ToReal(k) * (b - a) / z3.ToReal(n - 1)),
                               qid=QID(), patterns=[inner[k]]))
        st.pc += [inner[0] == a, inner[n - 1] == b]
        A.add("np.linspace: consecutive values differ by (b-a)/(n-1) and are non-decreasing when a <= b (real arithmetic)")
        st.pc.append(z3.ForAll([k], z3.Implies(z3.And(k >= 0, k < n - 1),
                                               z3.And(inner[k + 1] - inner[k] == (b - a) / z3.ToReal(n - 1),
                                                      z3.Implies(a <= b, inner[k] <= inner[k + 1]))),
                               qid="linspace-step", patterns=[inner[k]]))
        return ev.lalloc(REAL, n, inner)
    if full == "copy.deepcopy":
        A.add("copy.deepcopy(list of lists of numbers): fresh outer and inner lists with equal values")
        return deepcopy(ev, args[0], node)
    raise Unsupported("uncontracted call %s" % full)


def _power(ev, a, b, node):
    ar, br = _real(ev, a, node), _real(ev, b, node)
    ev.u.used.add("rpow")
    ev.need(ar.t > 0, "pow-positive-base", node)
    return Val(num.rpow(ar.t, br.t), REAL)


def deepcopy(ev, L, node):
    u, st = ev.u, ev.st
    if L.ty.k != "list":
        raise Unsupported("deepcopy of %s" % L.ty)
    el = L.ty.elem
    if el.k in ("int", "real"):
        n = ev.llen(L)
        return ev.lalloc(el, n, ev.lelts(L))
    if el.k == "list" and el.elem.k in ("int", "real"):
        n = ev.llen(L)
        src = ev.lelts(L)
        e1 = ev.ct.erase(L.ty)
        e2 = ev.ct.erase(el)
        o = u.alloc(st)
        # n fresh inner lists o+1 .. o+n
        first = st.next
        st.next = first + n
        for s in u.wlog:
            s.add("next")
        len2 = u.get_arr(st, "len:" + e2, el.elem)
        elt2 = u.get_arr(st, "elt:" + e2, el.elem)
        nlen2 = fresh("dc_len", len2.sort())
        nelt2 = fresh("dc_elt", elt2.sort())
        r = z3.Int("dc_r")
        k = z3.Int("dc_k")
        inside = z3.And(r >= first, r < first + n)
        len1 = u.get_arr(st, "len:" + e1, el)
        elt1 = u.get_arr(st, "elt:" + e1, el)
        inner = fresh("dc_outer", elt1.sort().range())
        # the k-th inner list of the copy is the fresh object first+k and holds the values of the k-th inner list of the source
        st.pc.append(z3.ForAll([k], z3.Implies(z3.And(k >= 0, k < n),
                                               z3.And(inner[k] == first + k, nlen2[inner[k]] == len2[src[k]],
                                                      nelt2[inner[k]] == elt2[src[k]])),
                               qid="deepcopy-inner", patterns=[inner[k], src[k]]))
        # everything outside the fresh block is untouched
        st.pc.append(z3.ForAll([r], z3.Implies(z3.Not(inside), z3.And(nlen2[r] == len2[r], nelt2[r] == elt2[r])),
                               qid="deepcopy-frame", patterns=[nlen2[r], nelt2[r]]))
        u.put_arr(st, "len:" + e2, nlen2)
        u.put_arr(st, "elt:" + e2, nelt2)
        u.put_arr(st, "len:" + e1, z3.Store(len1, o, n))
        u.put_arr(st, "elt:" + e1, z3.Store(elt1, o, inner))
        idx1 = u.get_arr(st, "idx:" + e1, el)
        ni = fresh("idx", z3.ArraySort(I, I))
        st.pc.append(ev.single_idx_axiom(inner, ni, n))
        u.put_arr(st, "idx:" + e1, z3.Store(idx1, o, ni))
        return Val(o, Ty("list", (el,)))
    raise Unsupported("deepcopy of %s" % L.ty)
