#!/venv/bin/python
"""witness of the known finding C01 / GPO.__init__:post:half>=1"""
import sys, os
sys.path.insert(0, os.environ.get("PYVC_REPO", "/repo"))
from PyXAB.algos.GPO import GPO
from PyXAB.algos.HOO import T_HOO
A = GPO(rounds=100, rhomax=0.99, algo=T_HOO, domain=[[0, 1]])
print("N =", A.N, "half_phase_length =", A.half_phase_length)
sys.exit(1 if A.half_phase_length < 1 else 0)
