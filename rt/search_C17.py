#!/venv/bin/python
"""history/input search for C17 on the REAL objectives (run-time version of the C17 contract clauses).
Prints one JSON line {"found": bool, "replay": <python source>}."""
import sys, json, math, argparse, itertools
sys.path.insert(0, __import__("os").environ.get("PYVC_REPO", "/repo"))
import numpy as np

TOL = 1e-9   # A-REAL: the proof is over the reals; a float excess of a few ulp is not a counterexample


def cases():
    from PyXAB.synthetic_obj import Garland, DoubleSine, DifficultFunc, Ackley, Himmelblau, Rastrigin, Cexample
    g1 = [i / 400.0 for i in range(401)]
    out = []
    out.append(("Garland.Garland()", 1, [[x] for x in g1] + [[math.pi / 6]], None))
    out.append(("DifficultFunc.DifficultFunc()", 1, [[x] for x in g1], [0.5]))
    out.append(("Cexample.Cexample()", 1, [[x / math.e] for x in g1], [0.0]))
    for r1, r2, t in itertools.product((0.05, 0.3, 1.0), (0.05, 0.8, 1.0), (0.0, 0.5, 0.37, 1.0)):
        out.append(("DoubleSine.DoubleSine(rho1=%r, rho2=%r, tmax=%r)" % (r1, r2, t), 1, [[x] for x in g1] + [[t]], [t]))
    g2 = [-1 + i / 20.0 for i in range(41)]
    out.append(("Ackley.Ackley()", 2, [[a, b] for a in g2 for b in g2], [0.0, 0.0]))
    out.append(("Ackley.Ackley_Normalized()", 2, [[a, b] for a in g2 for b in g2], [0.0, 0.0]))
    g5 = [-5 + i / 4.0 for i in range(41)]
    out.append(("Himmelblau.Himmelblau()", 2, [[a, b] for a in g5 for b in g5], [3.0, 2.0]))
    out.append(("Himmelblau.Himmelblau_Normalized()", 2, [[a, b] for a in g5 for b in g5], [3.0, 2.0]))
    for d in (1, 2, 3):
        pts = [list(p) for p in itertools.product([-1, -0.5, -0.25, 0, 0.1, 0.5, 1], repeat=d)]
        out.append(("Rastrigin.Rastrigin()", None, pts, [0.0] * d))
        out.append(("Rastrigin.Rastrigin_Normalized()", None, pts, [0.0] * d))
    return out


REPLAY = '''import math, numpy as np
from PyXAB.synthetic_obj import Garland, DoubleSine, DifficultFunc, Ackley, Himmelblau, Rastrigin, Cexample
np.random.seed(%(seed)d)
obj = %(ctor)s
x = %(x)r
print("objective:", %(ctor)r, "x =", x)
%(body)s
'''


def main():
    ap = argparse.ArgumentParser()
    ap.add_argument("--seed", type=int, default=0)
    ap.add_argument("--budget", type=int, default=60)
    ap.add_argument("--sites", default="[]")
    a = ap.parse_args()
    from PyXAB.synthetic_obj import Garland, DoubleSine, DifficultFunc, Ackley, Himmelblau, Rastrigin, Cexample  # noqa
    env = dict(Garland=Garland, DoubleSine=DoubleSine, DifficultFunc=DifficultFunc, Ackley=Ackley, Himmelblau=Himmelblau,
               Rastrigin=Rastrigin, Cexample=Cexample)
    for ctor, d, pts, maxi in cases():
        np.random.seed(a.seed)
        obj = eval(ctor, env)
        st = np.random.get_state()[1].copy()

        def found(x, body):
            print(json.dumps({"found": True, "replay": REPLAY % dict(seed=a.seed, ctor=ctor, x=x, body=body)}))
            sys.exit(0)
        for x in pts:
            try:
                v = obj.f(list(x))
            except Exception as ex:
                found(x, "v = obj.f(list(x))   # raises %r on a point of the documented domain\n" % (ex,))
            if not (isinstance(v, (int, float, np.floating, np.integer)) and math.isfinite(v)):
                found(x, "v = obj.f(list(x)); print('f(x) =', v, 'is not a finite number'); import sys; sys.exit(1)")
            if v > obj.fmax + TOL:
                found(x, "v = obj.f(list(x)); print('f(x) =', v, '> fmax =', obj.fmax); import sys; sys.exit(1 if v > obj.fmax + %r else 0)" % TOL)
            if obj.f(list(x)) != v:
                found(x, "a = obj.f(list(x)); b = obj.f(list(x)); print('f is not a pure function of x:', a, b); import sys; sys.exit(1 if a != b else 0)")
        if (np.random.get_state()[1] != st).any():
            found(pts[0], "s = np.random.get_state()[1].copy(); obj.f(list(x)); import sys; ch = (np.random.get_state()[1] != s).any(); print('f consumed the global RNG:', ch); sys.exit(1 if ch else 0)")
        if maxi is not None:
            v = obj.f(list(maxi))
            if abs(v - obj.fmax) > 1e-9:
                found(maxi, "v = obj.f(list(x)); print('f(maximiser) =', v, 'but fmax =', obj.fmax); import sys; sys.exit(1 if abs(v - obj.fmax) > 1e-9 else 0)")
        if d is not None:
            for bad in ([0.1] * (d + 1), []):
                try:
                    obj.f(bad)
                    found(bad, "try:\n    obj.f(x)\n    print('a point of the wrong dimension was accepted'); import sys; sys.exit(1)\nexcept ValueError:\n    pass")
                except ValueError:
                    pass
                except Exception as ex:
                    found(bad, "obj.f(x)   # raises %r instead of ValueError" % (ex,))
    print(json.dumps({"found": False}))


if __name__ == "__main__":
    main()
