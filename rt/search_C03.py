#!/venv/bin/python
"""C03 searcher: direct make_children/deepen interleavings on every partition class, then trees grown by T-HOO/HCT/VHCT."""
import sys, os, subprocess, json
here = os.path.dirname(os.path.abspath(__file__))
args = sys.argv[1:]
budget = 60
if "--budget" in args:
    budget = int(args[args.index("--budget") + 1])
sites = args[args.index("--sites") + 1] if "--sites" in args else "[]"
algo_first = any(x in sites for x in ("T_HOO", "HCT", "VHCT", "HOO_node"))
order = ["search_bandit.py", "search_partition.py"] if algo_first else ["search_partition.py", "search_bandit.py"]
for script in order:
    a2 = [x for x in args]
    if "--budget" in a2:
        a2[a2.index("--budget") + 1] = str(max(10, budget // 2))
    p = subprocess.run(["/venv/bin/python", os.path.join(here, script), "--prop", "C03"] + a2, capture_output=True, text=True)
    last = p.stdout.strip().split("\n")[-1] if p.stdout.strip() else ""
    if last.startswith("{") and json.loads(last).get("found"):
        print(last)
        sys.exit(0)
print(json.dumps({"found": False}))
