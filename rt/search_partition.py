#!/venv/bin/python
"""history search for C02 / C03 on the real partition classes: random interleavings of deepen() and
make_children(leaf, newlayer = leaf is on the deepest level), every class, K in 2..4, dimension 1..3.
Prints one JSON line {"found": bool, "replay": <python source>}."""
import sys, os, json, argparse, time
sys.path.insert(0, os.path.dirname(os.path.abspath(__file__)))
from common import *   # noqa

REPLAY = '''sys.path.insert(0, "/verif/rt")
from common import *
import numpy as np
np.random.seed(%(seed)d)
P = make_partition(%(name)r, %(dom)r, K=%(K)d)
ops = %(ops)r
print("partition %(name)s K=%(K)d domain", %(dom)r)
for op in ops:
    if op[0] == "deepen":
        P.deepen()
    else:
        parent = P.node_list[op[1]][op[2]]
        P.make_children(parent, newlayer=(parent.depth == P.depth))
    print("  after", op, "layers", [len(l) for l in P.node_list])
bad = %(check)s
for b in bad:
    print("VIOLATED:", b)
sys.exit(1 if bad else 0)
'''


def check_all(P, prop, rng):
    if prop == "C03":
        return tree_wf(P)
    bad = []
    for layer in P.node_list:
        for n in layer:
            if n.children is not None:
                bad += split_ok(P, n)
    c = covered(P, rng)
    if c:
        bad.append(c)
    return bad[:6]


def main():
    ap = argparse.ArgumentParser()
    ap.add_argument("--prop", default="C03")
    ap.add_argument("--seed", type=int, default=0)
    ap.add_argument("--budget", type=int, default=60)
    ap.add_argument("--sites", default="[]")
    a = ap.parse_args()
    t0 = time.time()
    import random
    rng = random.Random(a.seed)
    trial = 0
    while time.time() - t0 < a.budget * 0.8:
        for name in PARTS:
            for dom in DOMAINS:
                K = rng.choice([2, 3, 4])
                seed = a.seed * 1000 + trial
                trial += 1
                np.random.seed(seed)
                P = make_partition(name, dom, K=K)
                ops = []
                for step in range(rng.randint(2, 7)):
                    if rng.random() < 0.3 and sum(len(l) for l in P.node_list) < 300:
                        ops.append(("deepen",))
                        P.deepen()
                    else:
                        ls = [(h, k) for h, l in enumerate(P.node_list) for k, n in enumerate(l) if n.children is None]
                        h, k = rng.choice(ls)
                        ops.append(("split", h, k))
                        parent = P.node_list[h][k]
                        try:
                            P.make_children(parent, newlayer=(parent.depth == P.depth))
                        except Exception as ex:
                            break
                    bad = check_all(P, a.prop, rng)
                    if bad:
                        chk = "tree_wf(P)" if a.prop == "C03" else \
                            "[b for l in P.node_list for n in l if n.children is not None for b in split_ok(P, n)] + " \
                            "([covered(P, __import__('random').Random(1), 2000)] if covered(P, __import__('random').Random(1), 2000) else [])"
                        emit(True, REPLAY % dict(seed=seed, name=name, dom=dom, K=K, ops=ops, check=chk))
                        return
        if trial > 4000:
            break
    emit(False)


if __name__ == "__main__":
    main()
