#!/venv/bin/python
import sys, os, runpy
sys.argv += ["--prop", "C05"]
runpy.run_path(os.path.join(os.path.dirname(os.path.abspath(__file__)), "search_bandit.py"), run_name="__main__")
