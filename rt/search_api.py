#!/venv/bin/python
"""Bounded run-time monitor for the whole-API properties C01, C14, C15, C16 (used when a function left the verifier's subset,
and as the thorough-tier cross-check).  It drives the REAL library and evaluates the property clauses on the observed runs.
Prints one JSON line {"found": bool, "replay": <python source>}."""
import sys, os, json, math, argparse, time, random, copy, signal
sys.path.insert(0, os.environ.get("PYVC_REPO", "/repo"))
sys.path.insert(0, os.path.dirname(os.path.abspath(__file__)))
import numpy as np
from common import emit

PARTS = [("BinaryPartition", None), ("RandomBinaryPartition", None), ("DimensionBinaryPartition", None), ("KaryPartition", 3),
         ("RandomKaryPartition", 3), ("KaryPartition", 5)]
ANYTIME = ("T_HOO", "HCT", "VHCT", "Zooming", "POO")
TIME_FREE = ANYTIME + ("GPO", "PCT", "VPCT", "DOO", "SOO", "SequOOL", "VROOM")


def part_cls(part, K):
    import importlib
    pcls = getattr(importlib.import_module("PyXAB.partition." + part), part)
    if K is not None:
        class P(pcls):
            def __init__(self, domain=None, **kw):
                super().__init__(domain=domain, K=K, **kw)
        P.__name__ = part
        return P
    return pcls


def make(name, part, K, dom, n, own=False):
    import importlib
    mod = importlib.import_module("PyXAB.algos." + ("HOO" if name == "T_HOO" else name))
    cls = getattr(mod, name)
    P = part_cls(part, K)
    d = dom if own else [list(x) for x in dom]        # own=True: hand the caller's object itself to the library
    if name == "T_HOO":
        return cls(rounds=n, domain=d, partition=P)
    if name in ("HCT", "VHCT", "Zooming"):
        return cls(domain=d, partition=P)
    if name in ("POO", "GPO"):
        from PyXAB.algos.HOO import T_HOO
        return cls(rounds=n, rhomax=0.9, domain=d, partition=P, algo=T_HOO)
    if name in ("PCT", "VPCT"):
        return cls(rounds=n, rhomax=0.9, domain=d, partition=P)
    if name == "SOO":
        return cls(n=n, h_max=n, domain=d, partition=P)
    if name == "StoSOO":
        return cls(n=n, h_max=n, domain=d, partition=P)
    if name == "VROOM":
        return cls(n=n, b=1, f_max=1, domain=d, partition=P)
    return cls(n=n, domain=d, partition=P)


class Hang(Exception):
    pass


def _alarm(sig, frm):
    raise Hang()


def drive(name, part, K, dom, n, rewards, seed, labels=None, query_every=0, rounds=None, own=False):
    """the documented loop; returns (points, recommendation)"""
    np.random.seed(seed)
    random.seed(seed)
    A = make(name, part, K, dom, n, own=own)
    pts = []
    T = len(rewards) if rounds is None else rounds
    for i in range(T):
        t = (i + 1) if labels is None else labels[i]
        x = A.pull(t)
        pts.append(None if x is None else [float(v) for v in x])
        A.receive_reward(t, rewards[i])
        if query_every and (i + 1) % query_every == 0:
            A.get_last_point()
    rec = A.get_last_point()
    return pts, (None if rec is None else [float(v) for v in rec])


def inside(x, dom, tol=1e-9):
    if x is None or len(x) != len(dom):
        return False
    return all(math.isfinite(v) and lo - tol * max(1, abs(lo)) <= v <= hi + tol * max(1, abs(hi)) for v, (lo, hi) in zip(x, dom))


DOMS = [[[0, 1]], [[-3.5, 2.25]], [[0, 1], [10, 50]], [[-1, 1], [-10, -4], [0.5, 0.75]], [[4096, 4097]]]


def rewards_for(rng, n, kind):
    if kind == "noisy":
        return [round(rng.gauss(0.3, 1.0), 3) for _ in range(n)]
    if kind == "ties":
        return [rng.choice([0.0, 0.5, 1.0]) for _ in range(n)]
    if kind == "neg":
        return [-abs(round(rng.gauss(2, 1), 3)) for _ in range(n)]
    if kind == "continuous":
        return [rng.gauss(0.3, 1.0) for _ in range(n)]      # no two rewards equal
    return [0.7] * n


def check_C01(name, part, K, dom, n, rewards, seed):
    signal.signal(signal.SIGALRM, _alarm)
    signal.alarm(40)
    try:
        pts, rec = drive(name, part, K, dom, n, rewards, seed)
    except Hang:
        return "the loop did not finish within 40 s (hang)"
    except Exception as ex:
        return "the loop raised %r" % (ex,)
    finally:
        signal.alarm(0)
    for i, x in enumerate(pts):
        if not inside(x, dom):
            return "round %d: pull returned %r, not a point of the box %r" % (i + 1, x, dom)
    if not inside(rec, dom):
        return "get_last_point returned %r, not a point of the box %r" % (rec, dom)
    return None


def check_C14(name, part, K, dom, n, rewards, seed):
    d0 = copy.deepcopy(dom)
    mine = copy.deepcopy(dom)
    a = drive(name, part, K, mine, n, rewards, seed, own=True)
    if mine != d0:
        return "the domain object passed by the user was modified: %r -> %r" % (d0, mine)
    b = drive(name, part, K, dom, n, rewards, seed)
    if a != b:
        return "two runs with the same seed, arguments and rewards differ"
    # the user's list must not be aliased into mutable state either: interleave two instances that share the SAME domain object
    shared = [list(x) for x in dom]
    np.random.seed(seed); random.seed(seed)
    A = make(name, part, K, shared, n, own=True)
    st = np.random.get_state()
    B = make(name, part, K, shared, n, own=True)
    np.random.set_state(st)
    pa = []
    for i, r in enumerate(rewards):
        s = np.random.get_state()
        xb = B.pull(i + 1); B.receive_reward(i + 1, rewards[-1 - i])      # B gets other rewards
        np.random.set_state(s)
        xa = A.pull(i + 1); A.receive_reward(i + 1, r)
        pa.append(None if xa is None else [float(v) for v in xa])
    if shared != [list(x) for x in d0]:
        return "the shared domain object was modified by the instances"
    if pa != a[0]:
        return "an instance interleaved with a second, independently constructed instance produced a different sequence of points"
    return None


def check_C15(name, part, K, dom, n, rewards, seed):
    if name not in TIME_FREE:
        return None
    base = drive(name, part, K, dom, n, rewards, seed)
    T = len(rewards)
    for labels in ([i for i in range(T)], [7 + 3 * i for i in range(T)]):
        if drive(name, part, K, dom, n, rewards, seed, labels=labels) != base:
            return "numbering the rounds %r... instead of 1, 2, ... changed the run" % (labels[:3],)
    if name in ANYTIME:
        for q in (1, 5):
            if drive(name, part, K, dom, n, rewards, seed, query_every=q) != base:
                return "calling get_last_point after every %d round(s) changed the run" % q
    return None


def check_C16(name, part, K, dom, n, rewards, seed):
    base_p, base_r = drive(name, part, K, dom, n, rewards, seed)
    for s, t in ((1.0, 64.0), (1.0, -1024.0), (4.0, 0.0), (0.5, 16.0), (1.0, 1048576.0)):
        if name == "DOO" and s != 1.0:
            continue        # documented exception: the default diameter function is not scale invariant
        d2 = [[lo * s + t, hi * s + t] for lo, hi in dom]
        p2, r2 = drive(name, part, K, d2, n, rewards, seed)

        def back(x):
            return None if x is None else [(v - t) / s for v in x]
        for i, (x, y) in enumerate(zip(base_p + [base_r], [back(x) for x in p2] + [back(r2)])):
            if (x is None) != (y is None) or (x is not None and any(abs(a - b) > 1e-6 * max(1.0, abs(a)) * max(1.0, abs(t) / 1024) for a, b in zip(x, y))):
                return "domain x -> %g*x + %g: %s differs (%r vs %r mapped back)" % (
                    s, t, "point %d" % (i + 1) if i < len(base_p) else "the recommendation", x, y)
    return None


CHECKS = {"C01": check_C01, "C14": check_C14, "C15": check_C15, "C16": check_C16}

REPLAY = '''sys.path.insert(0, "/verif/rt")
from search_api import CHECKS
rewards = %(rewards)r
bad = CHECKS[%(prop)r](%(name)r, %(part)r, %(K)r, %(dom)r, %(n)d, rewards, %(seed)d)
print("%(name)s on %(part)s(K=%(K)r), domain %(dom)r, budget %(n)d, %%d rewards, numpy seed %(seed)d" %% len(rewards))
if bad:
    print("VIOLATED (%(prop)s):", bad)
sys.exit(1 if bad else 0)
'''


def main():
    ap = argparse.ArgumentParser()
    ap.add_argument("--prop", default="C01")
    ap.add_argument("--seed", type=int, default=0)
    ap.add_argument("--budget", type=int, default=60)
    ap.add_argument("--sites", default="[]")
    a = ap.parse_args()
    rng = random.Random(a.seed)
    t0 = time.time()
    names = ["T_HOO", "HCT", "VHCT", "POO", "GPO", "PCT", "VPCT", "DOO", "SOO", "StoSOO", "SequOOL", "StroquOOL", "Zooming", "VROOM"]
    # functions named in the undecided sites first
    pri = [nm for nm in names if nm in a.sites]
    pparts = [p for p in PARTS if p[0] in a.sites]
    k = 0
    while time.time() - t0 < a.budget * 0.8 and k < 5000:
        for name in (pri or names):
            part, K = rng.choice(pparts or PARTS)
            if name == "VROOM" and part not in ("BinaryPartition", "RandomBinaryPartition"):
                part, K = "BinaryPartition", None       # VROOM is defined for binary trees (2^h cells per depth)
            dom = rng.choice(DOMS if a.prop != "C16" else [[[0, 1]], [[0, 1], [0, 0.25]], [[-1, 1], [0, 4], [0.5, 0.75]], [[3, 3.5]]])
            n = rng.choice([30, 100, 300])
            if a.prop in ("C15", "C16", "C14"):
                n = rng.choice([30, 100])
            kind = rng.choice(["noisy", "ties", "neg", "const"])
            if a.prop == "C16" and part not in ("BinaryPartition", "DimensionBinaryPartition"):
                # split points that are not dyadic are rounded differently after a translation (A-REAL): only histories without
                # exact ties are compared there (with a tolerance), so that a last-bit difference cannot flip a decision
                kind = "continuous"
            if name == "StroquOOL" and n < 100:
                n = 100         # known finding (C01): the constructor raises for budgets below ~70
            rewards = rewards_for(rng, n, kind)
            T = n if name not in ("Zooming",) else min(n, 100)
            rewards = rewards[:T]
            k += 1
            seed = a.seed * 1000 + k
            try:
                bad = CHECKS[a.prop](name, part, K, dom, n, rewards, seed)
            except Hang:
                bad = None
            except Exception as ex:
                bad = None if a.prop != "C01" else "the loop raised %r" % (ex,)
            if bad:
                body = REPLAY % dict(rewards=rewards, prop=a.prop, name=name, part=part, K=K, dom=dom, n=n, seed=seed)
                emit(True, body)
                return
            if time.time() - t0 > a.budget * 0.8:
                break
    emit(False)


if __name__ == "__main__":
    main()
