#!/venv/bin/python
"""witness of the known finding C01 / StroquOOL.__init__: budgets below ~70 give h_max = floor(n / (2 (H_n + 1)^2)) = 0 and the
constructor raises OverflowError at floor(log2(0))"""
import sys, os, warnings
warnings.simplefilter("ignore")
sys.path.insert(0, os.environ.get("PYVC_REPO", "/repo"))
from PyXAB.algos.StroquOOL import StroquOOL
try:
    A = StroquOOL(n=50, domain=[[0, 1]])
except OverflowError as ex:
    print("StroquOOL(n=50, domain=[[0, 1]]) raised", repr(ex))
    sys.exit(1)
print("constructed, h_max =", A.h_max)
sys.exit(0 if A.h_max >= 1 else 1)
