"""Run-time versions of the contract clauses, evaluated on the REAL objects (z3-free, runs under /venv/bin/python).
Used by the history searchers (counterexamples for failed obligations) and by the replay files they emit."""
import sys, json, math, itertools
sys.path.insert(0, __import__("os").environ.get("PYVC_REPO", "/repo"))
import numpy as np

PARTS = ["BinaryPartition", "RandomBinaryPartition", "DimensionBinaryPartition", "KaryPartition", "RandomKaryPartition"]


def make_partition(name, domain, K=3, node=None):
    import importlib
    cls = getattr(importlib.import_module("PyXAB.partition." + name), name)
    kw = {}
    if node is not None:
        kw["node"] = node
    if "Kary" in name:
        kw["K"] = K
    return cls(domain=[list(d) for d in domain], **kw)


def arity_of(P):
    n = type(P).__name__
    if "Kary" in n:
        return P.K
    if n == "DimensionBinaryPartition":
        return 2 ** len(P.domain)
    return 2


def tree_wf(P):
    """TreeWF (C03): list of violated clauses"""
    bad = []
    nl = P.node_list
    if len(nl) != P.depth + 1:
        bad.append("shape: len(node_list)=%d but depth=%d" % (len(nl), P.depth))
    if not nl or len(nl[0]) != 1 or nl[0][0] is not P.root:
        bad.append("root: node_list[0] is not [root]")
        return bad
    if P.root.parent is not None or P.root.index != 1:
        bad.append("root: parent/index")
    A = arity_of(P)
    ids = [set(id(x) for x in layer) for layer in nl]
    for h, layer in enumerate(nl):
        if not layer:
            bad.append("shape: empty layer %d" % h)
        if len(set(id(x) for x in layer)) != len(layer):
            bad.append("nodup: a node is listed twice in layer %d" % h)
        if len(set(x.index for x in layer)) != len(layer):
            bad.append("uniq_index: duplicate (depth,index) label in layer %d" % h)
        for h2, l2 in enumerate(nl):
            if h2 != h and l2 is layer:
                bad.append("layers_distinct: layers %d and %d are one list object" % (h, h2))
        for n in layer:
            if n.depth != h:
                bad.append("depths: node (%d,%d) listed in layer %d" % (n.depth, n.index, h))
            if h == len(nl) - 1 and n.children is not None:
                bad.append("leaves: a node of the deepest layer has children")
            if n.children is not None:
                if any(n.children is l2 for l2 in nl):
                    bad.append("noalias_layer: the child list of (%d,%d) is a layer list" % (n.depth, n.index))
                if len(n.children) != A:
                    bad.append("kids: (%d,%d) has %d children, arity %d" % (n.depth, n.index, len(n.children), A))
                for j, c in enumerate(n.children):
                    if c.parent is not n:
                        bad.append("kids: child %d of (%d,%d) has another parent" % (j, n.depth, n.index))
                    if c.depth != h + 1:
                        bad.append("kids: child depth")
                    if h + 1 >= len(nl) or id(c) not in ids[h + 1]:
                        bad.append("kids: child %d of (%d,%d) is not listed in layer %d" % (j, n.depth, n.index, h + 1))
                    if c.index != A * (n.index - 1) + j + 1:
                        bad.append("kids: child %d of (%d,%d) has index %d, expected %d" % (j, n.depth, n.index, c.index, A * (n.index - 1) + j + 1))
            if h >= 1:
                p = n.parent
                if p is None or id(p) not in ids[h - 1] or p.children is None or not any(c is n for c in p.children):
                    bad.append("up: (%d,%d) is listed but not reachable through its parent" % (n.depth, n.index))
    return bad[:8]


def split_ok(P, parent, tol=0.0):
    """C02 for one split: list of violated clauses"""
    bad = []
    ch = parent.children
    d = len(parent.domain)
    A = arity_of(P)
    if len(ch) != A:
        bad.append("arity: %d children, expected %d" % (len(ch), A))
    for c in ch:
        if len(c.domain) != d or any(len(iv) != 2 for iv in c.domain):
            bad.append("box shape")
            return bad
        for j in range(d):
            lo, hi = c.domain[j]
            if not (parent.domain[j][0] <= lo <= hi <= parent.domain[j][1]):
                bad.append("child not inside parent along dim %d: %r vs %r" % (j, c.domain[j], parent.domain[j]))
            if abs(c.c_point[j] - (lo + hi) / 2) > 1e-12 * max(1, abs(lo), abs(hi)):
                bad.append("centre: c_point[%d]=%r, interval %r" % (j, c.c_point[j], c.domain[j]))
    name = type(P).__name__
    if name == "DimensionBinaryPartition":
        seen = set()
        for c in ch:
            key = []
            for j in range(d):
                lo, hi = parent.domain[j]
                mid = (lo + hi) / 2
                if c.domain[j] == [lo, mid]:
                    key.append(0)
                elif c.domain[j] == [mid, hi]:
                    key.append(1)
                else:
                    bad.append("halves: dim %d of a child is %r, not a half of %r" % (j, c.domain[j], parent.domain[j]))
                    key.append(-1)
            seen.add(tuple(key))
        if len(seen) != len(ch):
            bad.append("halves: two children occupy the same orthant (or one is missing)")
    else:
        split = [j for j in range(d) if any(c.domain[j] != parent.domain[j] for c in ch)]
        if len(split) > 1:
            bad.append("chain: children differ from the parent in more than one dimension %r" % split)
        elif split:
            s = split[0]
            if ch[0].domain[s][0] != parent.domain[s][0] or ch[-1].domain[s][1] != parent.domain[s][1]:
                bad.append("chain: outer faces are not the parent's along dim %d" % s)
            for a, b in zip(ch, ch[1:]):
                if a.domain[s][1] != b.domain[s][0]:
                    bad.append("chain: neighbours do not share a boundary value along dim %d: %r | %r" % (s, a.domain[s], b.domain[s]))
            if name in ("BinaryPartition", "KaryPartition"):
                w = (parent.domain[s][1] - parent.domain[s][0]) / len(ch)
                for c in ch:
                    if abs((c.domain[s][1] - c.domain[s][0]) - w) > 1e-9 * max(1.0, abs(w)):
                        bad.append("equal-widths: child width %r, expected %r" % (c.domain[s][1] - c.domain[s][0], w))
    return bad[:8]


def leaves(P):
    out = []
    for layer in P.node_list:
        for n in layer:
            if n.children is None:
                out.append(n)
    return out


def covered(P, rng, samples=200):
    """sampled check that the leaves tile the root box"""
    dom = P.domain
    for _ in range(samples):
        x = [rng.uniform(lo, hi) for lo, hi in dom]
        hits = [n for n in leaves(P) if all(n.domain[j][0] <= x[j] <= n.domain[j][1] for j in range(len(dom)))]
        if not hits:
            return "a point of the domain lies in no leaf: %r" % (x,)
        inner = [n for n in hits if all(n.domain[j][0] < x[j] < n.domain[j][1] for j in range(len(dom)))]
        if len(inner) > 1:
            return "a point lies in the interior of two leaves: %r" % (x,)
    return None


DOMAINS = [[[0, 1]], [[-3.5, 2.25]], [[0, 1], [2, 5]], [[-1, 1], [-10, -4], [0.5, 0.75]]]


def emit(found, replay=None):
    print(json.dumps({"found": found, "replay": replay} if found else {"found": False}))
