#!/venv/bin/python
import sys, os, runpy
sys.argv += ["--prop", "C12"]
runpy.run_path(os.path.join(os.path.dirname(os.path.abspath(__file__)), "search_sweep.py"), run_name="__main__")
