#!/venv/bin/python
"""history search for C08 (SOO / StoSOO / DOO) and C12 (SequOOL) on the REAL code: run-time versions of the contract clauses.
Prints one JSON line {"found": bool, "replay": <python source>}."""
import sys, os, json, math, argparse, time, random
sys.path.insert(0, os.environ.get("PYVC_REPO", "/repo"))
sys.path.insert(0, os.path.dirname(os.path.abspath(__file__)))
import numpy as np
from common import make_partition, arity_of, tree_wf, emit


def make(name, part, dom, K, params):
    import importlib
    mod = importlib.import_module("PyXAB.algos." + name)
    pcls = getattr(importlib.import_module("PyXAB.partition." + part), part)
    if "Kary" in part:
        class P(pcls):
            def __init__(self, domain=None, **kw):
                super().__init__(domain=domain, K=K, **kw)
        P.__name__ = part
        pcls = P
    return getattr(mod, name)(domain=[list(d) for d in dom], partition=pcls, **params)


def all_nodes(P):
    return [n for layer in P.node_list for n in layer]


def run_sequool(A, rewards):
    """C12 clauses"""
    P = A.partition
    K = None
    opened_at = {}           # depth -> number of cells opened
    evals = {}               # id(node) -> times handed out
    t = 0
    cur_parent, cur_pos = None, 0
    from fractions import Fraction
    nb = getattr(A, "_budget_n", None)
    if nb:
        hn = sum(Fraction(1, i) for i in range(1, nb + 1))
        if A.h_max != math.floor(Fraction(nb) / hn):
            return 0, ["h_max = %r, but floor(n / H_n) = %d for n = %d" % (A.h_max, math.floor(Fraction(nb) / hn), nb)]
    for r in rewards:
        t += 1
        before_opened = {id(n): n.opened for n in all_nodes(P)}
        d0 = A.curr_depth
        exhausted = d0 > A.h_max
        x = A.pull(t)
        bad = tree_wf(P)
        if bad:
            return t, ["C03 at a C12 call site: " + bad[0]]
        n = A.curr_node
        if x is None:
            return t, ["pull returned None"]
        if exhausted:
            if list(x) != list(P.root.get_cpoint()):
                return t, ["schedule exhausted but pull did not return the domain centre"]
            rec0 = list(A.get_last_point())
            A.receive_reward(t, r)
            if list(A.get_last_point()) != rec0:
                return t, ["a pull after the schedule was exhausted changed the recommendation"]
            continue
        K = arity_of(P)
        if list(x) != list(n.get_cpoint()):
            return t, ["the returned point is not the centre of curr_node"]
        if n.depth < 1 or n.depth > A.h_max + 1:
            return t, ["a cell of depth %d was evaluated, h_max = %d" % (n.depth, A.h_max)]
        evals[id(n)] = evals.get(id(n), 0) + 1
        if evals[id(n)] > 1 or len(n.rewards) != 0:
            return t, ["search cell (%d,%d) is evaluated a second time" % (n.depth, n.index)]
        p = n.parent
        if p.depth != d0:
            return t, ["the opened cell has depth %d, current depth is %d" % (p.depth, d0)]
        if p.depth > A.h_max:
            return t, ["a cell of depth %d > h_max = %d is opened" % (p.depth, A.h_max)]
        if cur_parent is not None and p is not cur_parent:
            return t, ["the children of the cell being opened were not finished: switched to another cell after %d of %d children" % (cur_pos, K)]
        if p.children[cur_pos] is not n:
            return t, ["children are not evaluated in order: expected child %d" % cur_pos]
        if cur_parent is None and d0 >= 1:
            if before_opened.get(id(p), False):
                return t, ["an already opened cell is opened again"]
            rivals = [m for m in P.node_list[d0] if not before_opened.get(id(m), False) and m.rewards]
            if any(m.rewards[0] > p.rewards[0] for m in rivals):
                return t, ["opened cell (%d,%d) reward %r is not the best unopened of depth %d (best %r)" % (
                    p.depth, p.index, p.rewards[0], d0, max(m.rewards[0] for m in rivals))]
        cur_parent, cur_pos = p, cur_pos + 1
        if cur_pos == K:
            if d0 >= 1:
                opened_at[d0] = opened_at.get(d0, 0) + 1
                if opened_at[d0] > A.h_max // d0:
                    return t, ["%d cells of depth %d opened, budget floor(h_max/h) = %d" % (opened_at[d0], d0, A.h_max // d0)]
                if not p.opened:
                    return t, ["a completely evaluated cell is not marked opened"]
            cur_parent, cur_pos = None, 0
        A.receive_reward(t, r)
        if n.rewards != [r]:
            return t, ["the reward was not stored in the evaluated cell"]
    return None, []


def run_soo_like(A, name, rewards):
    """C08 clauses for SOO / StoSOO / DOO, observed through a wrapped make_children"""
    P = A.partition
    log = []
    orig = P.make_children

    def wrapped(parent, newlayer=False):
        leaves = [n for n in all_nodes(P) if n.children is None]
        info = dict(b_max=getattr(A, "b_max", None))
        if name == "DOO":      # delta(h) may depend on the current tree (the default one does): evaluate it before the split
            info["b"] = {id(n): n.reward + A.delta(n.depth) for n in leaves if n.visited}
        log.append((parent, leaves, info))
        return orig(parent, newlayer=newlayer)
    P.make_children = wrapped
    t = 0
    k = getattr(A, "k", None)
    for r in rewards:
        t += 1
        del log[:]
        vbefore = {id(n): (getattr(n, "visited", None), getattr(n, "visited_times", None)) for n in all_nodes(P)}
        x = A.pull(t)
        if x is None:
            return t, ["pull returned None"]
        bad = tree_wf(P)
        if bad:
            return t, ["C03 at a C08 call site: " + bad[0]]
        prev = None
        for parent, leaves, info in log:
            if parent.children is None:
                return t, ["make_children did not split"]
            if name == "StoSOO":
                if parent.visited_times < k:
                    return t, ["StoSOO expanded a cell evaluated %d < k = %r times" % (parent.visited_times, k)]
                same = [n for n in leaves if n.depth == parent.depth]
                if any(n.b_value > parent.b_value for n in same):
                    return t, ["StoSOO expanded a leaf that does not have the highest b of its depth"]
                if prev is not None and parent.b_value < prev:
                    return t, ["StoSOO expansion with b below b_max of the sweep"]
                prev = parent.b_value
            elif name == "SOO":
                if not vbefore.get(id(parent), (False,))[0]:
                    return t, ["SOO expanded an unevaluated leaf"]
                same = [n for n in leaves if n.depth == parent.depth]
                if any(n.reward > parent.reward for n in same):
                    return t, ["SOO expanded a leaf that does not have the highest reward of its depth"]
                if prev is not None and parent.reward < prev:
                    return t, ["SOO expansion with reward below v_max of the sweep"]
                prev = parent.reward
                if any((not vbefore.get(id(n), (True,))[0]) and n.depth <= parent.depth and id(n) in vbefore for n in leaves
                       if n.depth < parent.depth):
                    return t, ["SOO expanded a leaf while an unevaluated leaf precedes it in the sweep"]
            else:
                if not vbefore.get(id(parent), (False,))[0]:
                    return t, ["DOO expanded an unevaluated leaf"]
                b = info["b"]
                if id(parent) not in b or any(v > b[id(parent)] + 1e-12 for v in b.values()):
                    return t, ["DOO expanded a leaf that does not maximise reward + delta(depth)"]
        if name == "DOO" and len(log) > 1:
            return t, ["DOO expanded %d cells in one pull" % len(log)]
        if name == "StoSOO":
            n = P.node_list[A.max_b_node_h][A.max_b_node_ind]
            if n.children is not None or n.visited_times >= k:
                return t, ["StoSOO handed out a cell that is internal or already evaluated k times"]
            if n.depth > A.h_max:
                return t, ["StoSOO evaluates a cell deeper than h_max"]
            if any(m.children is None and m.b_value > n.b_value for m in P.node_list[n.depth]):
                return t, ["StoSOO handed out a leaf that is not a max-b leaf of its depth"]
        else:
            n = A.curr_node
            if n.children is not None:
                return t, ["%s handed out an internal cell" % name]
            if vbefore.get(id(n), (False,))[0]:
                return t, ["%s evaluates cell (%d,%d) a second time" % (name, n.depth, n.index)]
            if name == "SOO" and n.depth > A.h_max:
                return t, ["SOO evaluates a cell deeper than h_max"]
            # first unevaluated leaf in top-down order
            for layer in P.node_list[: n.depth + 1]:
                for m in layer:
                    if m is n:
                        break
                    if m.children is None and id(m) in vbefore and not vbefore[id(m)][0] and m.depth <= n.depth:
                        return t, ["%s skipped the unevaluated leaf (%d,%d) and handed out (%d,%d)" % (name, m.depth, m.index, n.depth, n.index)]
                else:
                    continue
                break
        if list(x) != list(n.get_cpoint()):
            return t, ["the returned point is not the centre of the cell handed out"]
        A.receive_reward(t, r)
        if name == "StoSOO" and n.visited_times > math.ceil(k):
            return t, ["StoSOO evaluated a cell more than k times"]
    return None, []


def run(name, part, dom, K, params, rewards):
    A = make(name, part, dom, K, params)
    A._budget_n = params.get("n")
    if name == "SequOOL":
        return run_sequool(A, rewards)
    return run_soo_like(A, name, rewards)


REPLAY = '''sys.path.insert(0, "/verif/rt")
from search_sweep import run
rewards = %(rewards)r
t, bad = run(%(name)r, %(part)r, %(dom)r, %(K)d, %(params)r, rewards)
print("%(name)s on %(part)s(K=%(K)d) domain %(dom)r params %(params)r, %%d rewards" %% len(rewards))
for b in bad:
    print("round", t, "VIOLATED:", b)
sys.exit(1 if bad else 0)
'''


def main():
    ap = argparse.ArgumentParser()
    ap.add_argument("--prop", default="C08")
    ap.add_argument("--seed", type=int, default=0)
    ap.add_argument("--budget", type=int, default=60)
    ap.add_argument("--sites", default="[]")
    a = ap.parse_args()
    rng = random.Random(a.seed)
    t0 = time.time()
    names = ["SequOOL"] if a.prop == "C12" else ["SOO", "StoSOO", "DOO"]
    parts = [("BinaryPartition", 2), ("KaryPartition", 3), ("RandomBinaryPartition", 2), ("DimensionBinaryPartition", 2), ("KaryPartition", 5)]
    k = 0
    while time.time() - t0 < a.budget * 0.8 and k < 4000:
        for name in names:
            part, K = rng.choice(parts)
            dom = rng.choice([[[0, 1]], [[-2.0, 3.0], [1, 2]]])
            n = rng.choice([12, 40, 150, 400, rng.randint(4, 450)])
            if name == "SequOOL":
                params = dict(n=n)
            elif name == "SOO":
                params = dict(n=n, h_max=rng.choice([n, 100, 3 * n]))
            elif name == "StoSOO":
                params = dict(n=n, h_max=rng.choice([n, 100 + n]), k=rng.choice([None, 1, 2, 3]), delta=rng.choice([None, 0.1]))
            else:
                params = dict(n=n)
            kind = rng.choice(["noisy", "ties", "neg", "const", "incr"])
            if kind == "noisy":
                rewards = [round(rng.gauss(0.3, 1.0), 3) for _ in range(n)]
            elif kind == "ties":
                rewards = [rng.choice([0.0, 0.5, 1.0]) for _ in range(n)]
            elif kind == "neg":
                rewards = [-abs(round(rng.gauss(2, 1), 3)) for _ in range(n)]
            elif kind == "incr":
                rewards = [i / float(n) for i in range(n)]
            else:
                rewards = [0.7] * n
            k += 1
            np.random.seed(a.seed * 1000 + k)
            random.seed(a.seed * 1000 + k)
            try:
                t, bad = run(name, part, dom, K, params, rewards)
            except Exception as ex:
                t, bad = -1, ["the loop raised %r" % (ex,)]
            if bad:
                body = "import numpy as np, random\nnp.random.seed(%d)\nrandom.seed(%d)\n" % (a.seed * 1000 + k, a.seed * 1000 + k) + REPLAY % dict(
                    rewards=rewards[:max(t, 1)] if t and t > 0 else rewards, name=name, part=part, dom=dom, K=K, params=params)
                emit(True, body)
                return
    emit(False)


if __name__ == "__main__":
    main()
