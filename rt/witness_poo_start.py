#!/venv/bin/python
"""witness of the known finding C01 / POO.__init__:post:starts"""
import sys, os
sys.path.insert(0, os.environ.get("PYVC_REPO", "/repo"))
from PyXAB.algos.POO import POO
from PyXAB.algos.HOO import T_HOO
A = POO(rhomax=0.5, algo=T_HOO, domain=[[0, 1]])
try:
    A.pull(1)
    print("POO(rhomax=0.5) now starts"); sys.exit(0)
except AttributeError as ex:
    print("POO(rhomax=0.5).pull(1) raises", repr(ex)); sys.exit(1)
