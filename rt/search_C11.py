#!/venv/bin/python
"""history search for C11 (Zooming) on the REAL code: run-time version of the C11 contract clauses.
Prints one JSON line {"found": bool, "replay": <python source>}."""
import sys, os, json, math, argparse, time, random
sys.path.insert(0, os.environ.get("PYVC_REPO", "/repo"))
sys.path.insert(0, os.path.dirname(os.path.abspath(__file__)))
import numpy as np
from common import emit, tree_wf


def make(part, K, dom, nu, rho):
    import importlib
    from PyXAB.algos.Zooming import Zooming
    pcls = getattr(importlib.import_module("PyXAB.partition." + part), part)
    if K is not None:
        class P(pcls):
            def __init__(self, domain=None, **kw):
                super().__init__(domain=domain, K=K, **kw)
        P.__name__ = part
        pcls = P
    return Zooming(nu=nu, rho=rho, domain=[list(d) for d in dom], partition=pcls)


def inside(p, dom):
    return len(p) == len(dom) and all(lo <= x <= hi for x, (lo, hi) in zip(p, dom))


def state_ok(A):
    P = A.partition
    bad = tree_wf(P)
    if bad:
        return "C03 at a C11 call site: " + bad[0]
    arms = list(A.active_points.keys())
    if list(A.pulled_times.keys()) != arms or list(A.average_rewards.keys()) != arms:
        return "the three arm tables do not hold the same arms"
    cells = [A.active_points[a] for a in arms]
    for a, c in zip(arms, cells):
        if not inside(a.get_point(), c.get_domain()):
            return "arm %r lies outside its cell %r" % (a.get_point(), c.get_domain())
        if c.get_children() is not None:
            return "the cell (%d,%d) of an active arm is not a leaf" % (c.depth, c.index)
    if len(set(map(id, cells))) != len(cells):
        return "two active arms are responsible for one cell"
    ids = set(map(id, cells))
    for layer in P.node_list[1:]:
        for n in layer:
            if n.get_children() is None and id(n) not in ids:
                return "the leaf (%d,%d) %r is covered by no active arm" % (n.depth, n.index, n.get_domain())
    return None


def run(part, K, dom, nu, rho, rewards):
    A = make(part, K, dom, nu, rho)
    hist = {}
    bad = state_ok(A)
    if bad:
        return 0, [bad]
    for t, r in enumerate(rewards, 1):
        x = A.pull(t)
        arm = A.best_arm
        if arm not in A.active_points or list(x) != list(arm.get_point()):
            return t, ["pull did not return an active arm"]
        idx = {a: A.average_rewards[a] + 2 * math.sqrt(8 * A.phase / (2 + A.pulled_times[a])) for a in A.active_points}
        if any(v > idx[arm] + 1e-12 for v in idx.values()):
            return t, ["the played arm does not maximise mean + 2 sqrt(8 phase / (2 + pulls))"]
        cell = A.active_points[arm]
        narms = len(A.active_points)
        A.receive_reward(t, r)
        hist.setdefault(id(arm), []).append(r)
        for a in A.active_points:
            h = hist.get(id(a), [])
            if A.pulled_times[a] != len(h):
                return t, ["recorded pulls %r of an arm, rewards received %d" % (A.pulled_times[a], len(h))]
            m = sum(h) / len(h) if h else 0
            if abs(A.average_rewards[a] - m) > 1e-9 * max(1, abs(m)):
                return t, ["recorded mean %r of an arm, mean of its rewards %r" % (A.average_rewards[a], m)]
        should = math.sqrt(8 * A.phase / (2 + A.pulled_times[arm])) <= A.nu * A.rho ** cell.depth
        if should != (cell.get_children() is not None):
            return t, ["cell of depth %d %s refined, radius test says %s" % (cell.depth, "was" if cell.get_children() is not None else "was not", should)]
        if cell.get_children() is not None:
            kids = cell.get_children()
            holder = A.active_points[arm]
            if holder not in kids:
                return t, ["the refined arm was not handed to a child of its cell"]
            new = list(A.active_points.keys())[narms:]
            for k in kids:
                if k is holder:
                    continue
                mine = [a for a in new if A.active_points[a] is k]
                if len(mine) != 1 or list(mine[0].get_point()) != list(k.get_cpoint()):
                    return t, ["child (%d,%d) of the refined cell did not receive a new arm at its centre" % (k.depth, k.index)]
        bad = state_ok(A)
        if bad:
            return t, [bad]
    return None, []


REPLAY = '''sys.path.insert(0, "/verif/rt")
from search_C11 import run
rewards = %(rewards)r
t, bad = run(%(part)r, %(K)r, %(dom)r, %(nu)r, %(rho)r, rewards)
print("Zooming(nu=%(nu)r, rho=%(rho)r) on %(part)s(K=%(K)r), domain %(dom)r, %%d rewards" %% len(rewards))
for b in bad:
    print("round", t, "VIOLATED:", b)
sys.exit(1 if bad else 0)
'''


def main():
    ap = argparse.ArgumentParser()
    ap.add_argument("--seed", type=int, default=0)
    ap.add_argument("--budget", type=int, default=60)
    ap.add_argument("--sites", default="[]")
    a = ap.parse_args()
    rng = random.Random(a.seed)
    t0 = time.time()
    k = 0
    parts = [("BinaryPartition", None), ("RandomBinaryPartition", None), ("DimensionBinaryPartition", None), ("KaryPartition", 3), ("KaryPartition", 4),
             ("RandomKaryPartition", 3)]
    while time.time() - t0 < a.budget * 0.8 and k < 400 * a.budget:
        k += 1
        part, K = rng.choice(parts)
        dom = rng.choice([[[0, 1]], [[-2.0, 3.0], [1, 2]], [[4096, 4097]]])
        nu, rho = rng.choice([(1, 0.9), (0.5, 0.7), (2, 0.5), (1, 0.95)])
        n = rng.choice([60, 200, 600])
        kind = rng.choice(["noisy", "ties", "neg", "const"])
        if kind == "noisy":
            rewards = [round(rng.gauss(0.3, 1.0), 3) for _ in range(n)]
        elif kind == "ties":
            rewards = [rng.choice([0.0, 0.5, 1.0]) for _ in range(n)]
        elif kind == "neg":
            rewards = [-abs(round(rng.gauss(2, 1), 3)) for _ in range(n)]
        else:
            rewards = [0.7] * n
        np.random.seed(a.seed * 1000 + k)
        try:
            t, bad = run(part, K, dom, nu, rho, rewards)
        except Exception as ex:
            t, bad = -1, ["the loop raised %r" % (ex,)]
        if bad:
            body = "import numpy as np\nnp.random.seed(%d)\n" % (a.seed * 1000 + k) + REPLAY % dict(
                rewards=rewards[:max(t, 1)] if t and t > 0 else rewards, part=part, K=K, dom=dom, nu=nu, rho=rho)
            emit(True, body)
            return
    emit(False)


if __name__ == "__main__":
    main()
