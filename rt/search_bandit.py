#!/venv/bin/python
"""history search for C03/C04/C05/C06 on the real T-HOO / HCT / VHCT: drive pull / receive_reward with seeded reward
sequences on several partitions and re-derive, after every round, what the property states from the raw history
(run-time version of the contract clauses).  Prints one JSON line {"found": bool, "replay": <python source>}."""
import sys, os, json, math, argparse, time, random
sys.path.insert(0, os.path.dirname(os.path.abspath(__file__)))
from common import *   # noqa
INF = float("inf")


def tplus(x):
    return 2.0 ** math.ceil(math.log(x) / math.log(2))


def make_algo(name, part, dom, K, params):
    import importlib
    pcls = getattr(importlib.import_module("PyXAB.partition." + part), part)
    if "Kary" in part:
        import functools
        base = pcls

        class P(base):
            def __init__(self, domain=None, node=None):
                base.__init__(self, domain=domain, K=K, node=node)
        P.__name__ = part
        pcls = P
    mod = {"T_HOO": "HOO", "HCT": "HCT", "VHCT": "VHCT"}[name]
    cls = getattr(importlib.import_module("PyXAB.algos." + mod), name)
    return cls(domain=[list(d) for d in dom], partition=pcls, **params)


def all_nodes(P):
    return [n for layer in P.node_list for n in layer]


def close(a, b):
    if a == b:
        return True
    if math.isinf(a) or math.isinf(b):
        return False
    return abs(a - b) <= 1e-9 * max(1.0, abs(a), abs(b))


class Shadow:
    """what the history says: reward list per cell, delta~ used at the cell's last U update"""

    def __init__(self, A, name):
        self.A, self.name = A, name
        self.rew = {}
        self.dt = {}
        self.rounds = 0

    def U(self, n):
        A, r = self.A, self.rew.get(id(n), [])
        T = len(r)
        if T == 0:
            return INF
        mean = sum(r) / T
        if self.name == "T_HOO":
            return mean + math.sqrt(2 * math.log(A.rounds) / T) + A.nu * A.rho ** n.depth
        dt = self.dt[id(n)]
        if self.name == "HCT":
            return mean + A.nu * A.rho ** n.depth + A.c * math.sqrt(math.log(1 / dt) / T)
        var = max(float(np.var(np.array(r))), 1e-3)
        return mean + math.sqrt(2 * A.c ** 2 * var * math.log(1 / dt) / T) + 3 * A.bound * A.c ** 2 * math.log(1 / dt) / T + A.nu * A.rho ** n.depth


def check_round(A, name, sh, prop, path, reward, before):
    """after receive_reward; `before` = snapshot (children ids, depth) taken before it"""
    bad = []
    P = A.partition
    if prop == "C03":
        return tree_wf(P)
    nodes = all_nodes(P)
    reach = []
    stack = [P.root]
    while stack:
        n = stack.pop()
        reach.append(n)
        stack += list(n.children or [])
    if prop == "C04":
        tot = 0
        for n in reach:
            r = sh.rew.get(id(n), [])
            if list(n.rewards) != r or n.visited_times != len(r):
                bad.append("cell (%d,%d): recorded %d rewards %r..., history says %d" % (n.depth, n.index, n.visited_times, list(n.rewards)[:3], len(r)))
            elif r and not close(n.mean_reward, sum(r) / len(r)):
                bad.append("cell (%d,%d): mean %r but history mean %r" % (n.depth, n.index, n.mean_reward, sum(r) / len(r)))
            elif name == "VHCT" and not close(n.variance, max(float(np.var(np.array(r))), 1e-3) if r else 1e-3):
                bad.append("cell (%d,%d): variance %r vs history %r" % (n.depth, n.index, n.variance, max(float(np.var(np.array(r))), 1e-3) if r else 1e-3))
            tot += len(r) if name != "T_HOO" else 0
        if name == "T_HOO":
            if P.root.visited_times != sh.rounds:
                bad.append("root count %d != rounds %d" % (P.root.visited_times, sh.rounds))
        elif sum(n.visited_times for n in reach) != sh.rounds:
            bad.append("counts sum to %d, rounds %d (evidence lost or duplicated)" % (sum(n.visited_times for n in reach), sh.rounds))
    if prop == "C05":
        for n in reach:
            u = sh.U(n)
            if not close(n.u_value, u):
                bad.append("U of (%d,%d) is %r, published index from the history gives %r" % (n.depth, n.index, n.u_value, u))
            want = n.u_value if n.children is None else min(n.u_value, max(c.b_value for c in n.children))
            if not close(n.b_value, want):
                bad.append("B of (%d,%d) is %r, B-recursion gives %r" % (n.depth, n.index, n.b_value, want))
    if prop == "C06":
        ch_before, depth_before = before
        grown = [n for n in reach if id(n) in ch_before and ch_before[id(n)] is None and n.children is not None]
        regrown = [n for n in reach if id(n) in ch_before and ch_before[id(n)] is not None and n.children is not None
                   and id(n.children) != ch_before[id(n)]]
        if regrown:
            bad.append("an internal cell was split again")
        end = path[-1]
        for n in grown:
            if n is not end:
                bad.append("cell (%d,%d) was split but the pulled cell is (%d,%d)" % (n.depth, n.index, end.depth, end.index))
            for c in n.children:
                if c.visited_times != 0 or c.u_value != INF or c.b_value != INF or list(c.rewards):
                    bad.append("a new cell does not start with zero pulls and infinite index")
        if len(grown) > 1:
            bad.append("more than one cell was split in one round")
        was_leaf = ch_before.get(id(end), 0) is None
        if name == "T_HOO":
            lim = math.ceil((math.log(A.rounds) / 2 - math.log(1 / A.nu)) / math.log(1 / A.rho))
            should = was_leaf and end.depth <= lim
            if P.depth > max(1, lim + 1):
                bad.append("tree depth %d exceeds the bound %d" % (P.depth, max(1, lim + 1)))
        elif name == "HCT":
            should = was_leaf and end.visited_times >= sh.tau[end.depth]
        else:
            should = was_leaf and end.visited_times >= sh.tau_node[id(end)]
        if should != (end in grown):
            bad.append("expansion rule: pulled cell (%d,%d) pulls=%d %s split, rule says %s" % (
                end.depth, end.index, end.visited_times, "was" if end in grown else "was not", "split" if should else "do not split"))
    return bad[:6]


def run(name, part, dom, K, params, rewards, prop, query_every=0):
    A = make_algo(name, part, dom, K, params)
    sh = Shadow(A, name)
    t = 0
    for r in rewards:
        t += 1
        x = A.pull(t)
        P = A.partition
        path = list(A.path)
        if prop == "C05":
            # greedy descent on the current B-values, stop rule
            if path[0] is not P.root:
                return t, ["path does not start at the root"]
            for a, b in zip(path, path[1:]):
                if b not in (a.children or []):
                    return t, ["path step is not to a child"]
                if any(c.b_value > b.b_value for c in a.children):
                    return t, ["round %d: descent went to child (%d,%d) with B=%r although a sibling has B=%r" % (
                        t, b.depth, b.index, b.b_value, max(c.b_value for c in a.children))]
            end = path[-1]
            if name == "T_HOO" and end.children is not None:
                return t, ["T-HOO stopped at an internal cell"]
        # thresholds in force at this pull (HCT / VHCT)
        if name != "T_HOO":
            dtt = min(0.5, A.c1 * A.delta / tplus(A.iteration))
            if name == "HCT":
                sh.tau = [0.0] + [math.ceil(A.c ** 2 * math.log(1 / dtt) * A.rho ** (-2 * h) / A.nu ** 2) for h in range(1, P.depth + 1)]
                if prop in ("C05", "C06"):
                    for k, n in enumerate(path[:-1]):
                        if n.visited_times < sh.tau[k]:
                            return t, ["round %d: descent passed a cell with fewer pulls than its threshold" % t]
                    e = path[-1]
                    if e.children is not None and e.visited_times >= sh.tau[e.depth]:
                        return t, ["round %d: descent stopped at an internal cell that has reached its threshold" % t]
            else:
                sh.tau_node = {}
                for h in range(1, P.depth + 1):
                    for n in P.node_list[h]:
                        v = n.variance
                        sh.tau_node[id(n)] = math.ceil((v + 3 * A.bound * A.nu * A.rho ** h + v * math.sqrt(1 + 6 * A.bound * A.nu * A.rho ** h / v))
                                                       * (A.c ** 2 * math.log(1 / dtt) * A.rho ** (-2 * h) / A.nu ** 2))
                sh.tau_node[id(P.root)] = P.root.tau
        before = ({id(n): (None if n.children is None else id(n.children)) for n in all_nodes(P)}, P.depth)
        it0 = A.iteration
        if query_every and t % query_every == 0:
            A.get_last_point()
            A.pull(t)       # the documented loop: the pull that precedes receive_reward
            path = list(A.path)
        A.receive_reward(t, r)
        sh.rounds += 1
        credited = path if name == "T_HOO" else [path[-1]]
        for n in credited:
            sh.rew.setdefault(id(n), []).append(r)
        if name != "T_HOO":
            dt = min(1.0, A.c1 * A.delta / tplus(it0))
            if it0 == tplus(it0):
                for n in all_nodes(A.partition):
                    sh.dt[id(n)] = dt
            sh.dt[id(path[-1])] = dt
        bad = check_round(A, name, sh, prop, path, r, before)
        if bad:
            return t, bad
    return None, []


REPLAY = '''sys.path.insert(0, "/verif/rt")
from search_bandit import run
rewards = %(rewards)r
t, bad = run(%(name)r, %(part)r, %(dom)r, %(K)d, %(params)r, rewards, %(prop)r)
print("%(name)s on %(part)s(K=%(K)d) domain %(dom)r params %(params)r, %%d rewards" %% len(rewards))
for b in bad:
    print("round", t, "VIOLATED:", b)
sys.exit(1 if bad else 0)
'''


def configs(rng):
    parts = [("BinaryPartition", 2), ("KaryPartition", 3), ("RandomBinaryPartition", 2), ("DimensionBinaryPartition", 2), ("KaryPartition", 4)]
    for name in ("T_HOO", "HCT", "VHCT"):
        for part, K in parts:
            dom = rng.choice([[[0, 1]], [[-2.0, 3.0], [1, 2]]])
            if name == "T_HOO":
                params = rng.choice([dict(nu=1, rho=0.5, rounds=300), dict(nu=0.3, rho=0.8, rounds=120), dict(nu=2.5, rho=0.35, rounds=1000),
                                     dict(nu=1, rho=0.9, rounds=50)])
            elif name == "HCT":
                params = rng.choice([dict(), dict(nu=0.5, rho=0.7, c=0.2, delta=0.05), dict(nu=2, rho=0.4, c=0.05, delta=0.3)])
            else:
                params = rng.choice([dict(), dict(nu=0.5, rho=0.7, c=0.2, delta=0.05, bound=0.5), dict(nu=2, rho=0.4, c=0.05, delta=0.3, bound=2)])
            yield name, part, dom, K, params


def main():
    ap = argparse.ArgumentParser()
    ap.add_argument("--prop", default="C05")
    ap.add_argument("--seed", type=int, default=0)
    ap.add_argument("--budget", type=int, default=60)
    ap.add_argument("--sites", default="[]")
    a = ap.parse_args()
    t0 = time.time()
    rng = random.Random(a.seed)
    sites = a.sites
    only = [n for n in ("T_HOO", "HCT", "VHCT") if n in sites or n.replace("T_HOO", "HOO_node") in sites]
    k = 0
    while time.time() - t0 < a.budget * 0.8:
        for name, part, dom, K, params in configs(rng):
            if only and name not in only and not (name == "T_HOO" and "HOO_node" in sites):
                continue
            k += 1
            np.random.seed(a.seed * 1000 + k)
            n = rng.choice([40, 150, 400])
            kind = rng.choice(["noisy", "ties", "neg", "const"])
            if kind == "noisy":
                rewards = [round(rng.gauss(0.3, 1.0), 3) for _ in range(n)]
            elif kind == "ties":
                rewards = [rng.choice([0.0, 0.5, 1.0]) for _ in range(n)]
            elif kind == "neg":
                rewards = [-abs(round(rng.gauss(2, 1), 3)) for _ in range(n)]
            else:
                rewards = [0.7] * n
            try:
                np.random.seed(a.seed * 1000 + k)
                t, bad = run(name, part, dom, K, params, rewards, a.prop)
            except Exception as ex:
                t, bad = -1, ["the loop raised %r" % (ex,)]
            if bad:
                body = "import numpy as np\nnp.random.seed(%d)\n" % (a.seed * 1000 + k) + REPLAY % dict(
                    rewards=rewards[:max(t, 1)] if t and t > 0 else rewards, name=name, part=part, dom=dom, K=K, params=params, prop=a.prop)
                emit(True, body)
                return
        if k > 3000:
            break
    emit(False)


if __name__ == "__main__":
    main()
