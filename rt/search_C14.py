#!/venv/bin/python
import sys, os, runpy
sys.argv += ["--prop", "C14"]
runpy.run_path(os.path.join(os.path.dirname(os.path.abspath(__file__)), "search_api.py"), run_name="__main__")
