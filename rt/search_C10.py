#!/venv/bin/python
"""history search for C10 (POO) on the REAL code: base learners are wrapped by a logging subclass.
Prints one JSON line {"found": bool, "replay": <python source>}."""
import sys, os, json, math, argparse, time, random
sys.path.insert(0, os.environ.get("PYVC_REPO", "/repo"))
sys.path.insert(0, os.path.dirname(os.path.abspath(__file__)))
import numpy as np
from common import emit


def logging_learner(base, log):
    class L(base):
        def __init__(self, *a, **kw):
            super().__init__(*a, **kw)
            self._kw = dict(kw)
            self._got = []
            log.append(("new", self))

        def pull(self, time):
            log.append(("pull", self))
            return super().pull(time)

        def receive_reward(self, time, reward):
            log.append(("recv", self, reward))
            self._got.append(reward)
            return super().receive_reward(time, reward)
    L.__name__ = base.__name__
    return L


def run(algo, rhomax, numax, rounds, dom, rewards, query_every=0):
    import importlib
    from PyXAB.algos.POO import POO
    base = getattr(importlib.import_module("PyXAB.algos." + ("HOO" if algo == "T_HOO" else algo)), algo)
    log = []
    A = POO(numax=numax, rhomax=rhomax, rounds=rounds, domain=[list(d) for d in dom], algo=logging_learner(base, log))
    learners = []
    for t, r in enumerate(rewards, 1):
        del log[:]
        A.pull(t)
        pulled = [e[1] for e in log if e[0] == "pull"]
        if len(pulled) != 1:
            return t, ["the round was served by %d base learners" % len(pulled)]
        before = list(learners)
        learners = list(A.V_algo)
        if learners[:len(before)] != before:
            return t, ["a base learner was removed or replaced"]
        del log[:]
        A.receive_reward(t, r)
        got = [e for e in log if e[0] == "recv"]
        if len(got) != 1 or got[0][1] is not pulled[0] or got[0][2] != r:
            return t, ["the reward of the round was not delivered to exactly the learner that served it"]
        for i, L in enumerate(A.V_algo):
            if A.Times[i] != len(L._got):
                return t, ["learner %d: recorded count %r, rewards received %d" % (i, A.Times[i], len(L._got))]
            m = sum(L._got) / len(L._got) if L._got else 0
            if abs(A.V_reward[i] - m) > 1e-9 * max(1, abs(m)):
                return t, ["learner %d: score %r, mean of its %d rewards %r" % (i, A.V_reward[i], len(L._got), m)]
            if L._kw.get("nu") != numax or not (0 < L._kw.get("rho") < rhomax):
                return t, ["learner %d built with nu=%r rho=%r" % (i, L._kw.get("nu"), L._kw.get("rho"))]
        rhos = [L._kw["rho"] for L in A.V_algo]
        if len(set(rhos)) != len(rhos):
            return t, ["two learners share one rho"]
        if query_every and t % query_every == 0:
            del log[:]
            A.get_last_point()
            q = [e[1] for e in log if e[0] == "pull"]
            best = max(A.V_reward)
            if len(q) != 1 or A.V_reward[A.V_algo.index(q[0])] != best:
                return t, ["get_last_point asked a learner whose score %r is not the highest (%r)" % (
                    A.V_reward[A.V_algo.index(q[0])] if q else None, best)]
    return None, []


REPLAY = '''sys.path.insert(0, "/verif/rt")
from search_C10 import run
rewards = %(rewards)r
t, bad = run(%(algo)r, %(rhomax)r, %(numax)r, %(rounds)d, %(dom)r, rewards, query_every=%(q)d)
print("POO(algo=%(algo)s, rhomax=%(rhomax)r, numax=%(numax)r, rounds=%(rounds)d) on %(dom)r, %%d rewards" %% len(rewards))
for b in bad:
    print("round", t, "VIOLATED:", b)
sys.exit(1 if bad else 0)
'''


def main():
    ap = argparse.ArgumentParser()
    ap.add_argument("--seed", type=int, default=0)
    ap.add_argument("--budget", type=int, default=60)
    ap.add_argument("--sites", default="[]")
    a = ap.parse_args()
    rng = random.Random(a.seed)
    t0 = time.time()
    k = 0
    while time.time() - t0 < a.budget * 0.8 and k < 3000:
        k += 1
        algo = rng.choice(["T_HOO", "HCT", "VHCT"])
        rhomax = rng.choice([0.9, 0.85, 0.95])
        numax = rng.choice([1, 0.5, 2.0])
        rounds = rng.choice([50, 200, 1000])
        dom = rng.choice([[[0, 1]], [[-2.0, 3.0], [1, 2]]])
        n = rng.choice([30, 120, 300])
        kind = rng.choice(["noisy", "ties", "neg", "zero"])
        if kind == "noisy":
            rewards = [round(rng.gauss(0.3, 1.0), 3) for _ in range(n)]
        elif kind == "ties":
            rewards = [rng.choice([0.0, 0.5, 1.0]) for _ in range(n)]
        elif kind == "neg":
            rewards = [-abs(round(rng.gauss(2, 1), 3)) for _ in range(n)]
        else:
            rewards = [rng.choice([0.0, 0.0, -1.0, 1.0]) for _ in range(n)]
        q = rng.choice([1, 3, 7])
        np.random.seed(a.seed * 1000 + k)
        try:
            t, bad = run(algo, rhomax, numax, rounds, dom, rewards, query_every=q)
        except Exception as ex:
            t, bad = -1, ["the loop raised %r" % (ex,)]
        if bad:
            body = "import numpy as np\nnp.random.seed(%d)\n" % (a.seed * 1000 + k) + REPLAY % dict(
                rewards=rewards[:max(t, 1)] if t and t > 0 else rewards, algo=algo, rhomax=rhomax, numax=numax, rounds=rounds, dom=dom, q=q)
            emit(True, body)
            return
    emit(False)


if __name__ == "__main__":
    main()
