#!/bin/bash
# runs the quick check of the broken property against every stored seeded change, on a scratch copy of /repo
# (PYVC_REPO points the verifier and the run-time searchers at it); writes selftest/seed_results.txt
cd "$(dirname "$0")/.."; V=$(pwd)
out=selftest/seed_results.txt
[ -z "${1:-}" ] && : > $out
for d in seeded/*/; do
  id=$(basename $d)
  [ -n "${1:-}" ] && [[ "$id" != $1* ]] && continue
  prop=$(python3 -c "import json;print(json.load(open('$d/meta.json'))['property'])")
  scr=/tmp/seedrun_$id
  rm -rf $scr; mkdir -p $scr; cp -r /repo/PyXAB $scr/
  (cd $scr && git init -q . && git apply $V/$d/patch.diff) || { echo "$id: patch does not apply" >> $out; rm -rf $scr; continue; }
  r=$(PYVC_REPO=$scr ./check $prop --quick 2>&1 | grep -E "^VIOLATION|^  failed obligation|^UNDECIDED|^CHECKER|^  contract not|^  found by|^property=" | awk '/^property=/{last=$0; next} n<6{print; n++} END{print last}' | tr '\n' '|')
  rm -rf $scr
  echo "$id [$prop]: $r" >> $out
done
cat $out
