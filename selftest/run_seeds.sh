#!/bin/bash
# runs the quick check(s) of the broken property against every stored seeded change; writes selftest/seed_results.txt
cd /verif
out=selftest/seed_results.txt
: > $out
for d in seeded/*/; do
  id=$(basename $d)
  [ -n "${1:-}" ] && [[ "$id" != $1* ]] && continue
  prop=$(python3 -c "import json;print(json.load(open('$d/meta.json'))['property'])")
  git -C /repo apply $d/patch.diff || { echo "$id: patch does not apply" >> $out; continue; }
  r=$(./check $prop --quick 2>&1 | grep -E "VIOLATION|failed obligation|UNDECIDED|CHECKER|property=" | head -8 | tr '\n' '|')
  git -C /repo checkout -- .
  echo "$id [$prop]: $r" >> $out
done
git -C /repo status --short >> $out
cat $out
