#!/bin/bash
# usage: selftest/try_patch.sh <patch> <prop> [<prop>...]   -- applies the patch to /repo, runs the quick checks, reverts
set -u
patch="$1"; shift
git -C /repo apply "$patch" || { echo "patch does not apply"; exit 2; }
for p in "$@"; do
  out=$(cd /verif && ./check "$p" --quick 2>&1)
  echo "$out" | grep -E "VIOLATION|failed obligation|UNDECIDED|CHECKER|property=" | head -12
done
git -C /repo checkout -- .
git -C /repo status --short | head -3
