#!/usr/bin/env python3
"""copies the per-seed outcome of selftest/seed_results.txt (or a given file) into seeded/<id>/meta.json: detected_by"""
import sys, json, os, re
root = os.path.dirname(os.path.dirname(os.path.abspath(__file__)))
src = sys.argv[1] if len(sys.argv) > 1 else os.path.join(root, "selftest", "seed_results.txt")
for line in open(src):
    m = re.match(r"^(C\d\d-[AB]) \[(C\d\d)\]: (.*)$", line.strip())
    if not m:
        continue
    sid, prop, rest = m.groups()
    p = os.path.join(root, "seeded", sid, "meta.json")
    if not os.path.exists(p):
        continue
    meta = json.load(open(p))
    parts = [x.strip() for x in rest.split("|") if x.strip()]
    det = []
    if any(x.startswith("VIOLATION") for x in parts):
        how = "static" if any(x.startswith("failed obligation") for x in parts) else "run-time monitor (bounded stand-in)"
        det.append({"check": "./check %s --quick" % prop, "how": how,
                    "obligations": [x[len("failed obligation: "):] for x in parts if x.startswith("failed obligation")][:6],
                    "replayed_input": not any("no-failing-input-found" in x for x in parts if x.startswith("VIOLATION"))})
    meta["detected_by"] = det
    meta["last_result"] = parts[-1] if parts else ""
    json.dump(meta, open(p, "w"), indent=1)
    print(sid, "detected" if det else "NOT DETECTED")
