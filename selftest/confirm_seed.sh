#!/bin/bash
# usage: selftest/confirm_seed.sh <wt_dir> <variant> <seed-id> <prop>
# confirms a sub-agent's seeded change in a scratch worktree (tests pass with it, demo fails with it and passes without),
# then stores it under /verif/seeded/<seed-id>/
set -u
src="$1"; v="$2"; id="$3"; prop="$4"
wt=/tmp/wt_confirm_$$
git -C /repo worktree add -q --detach $wt HEAD || exit 2
cd $wt
res="{}"
git apply "$src/seeded/$v.patch" || { echo "PATCH DOES NOT APPLY"; git -C /repo worktree remove --force $wt; exit 2; }
t=$(PYTHONPATH=$wt /venv/bin/python -m pytest -q -p no:cacheprovider --timeout=900 PyXAB/tests 2>&1 | tail -1)
PYTHONPATH=$wt /venv/bin/python "$src/seeded/${v}_demo.py" > /tmp/demo_with.txt 2>&1; dw=$?
git checkout -q -- PyXAB
PYTHONPATH=$wt /venv/bin/python "$src/seeded/${v}_demo.py" > /tmp/demo_without.txt 2>&1; dwo=$?
cd /verif
git -C /repo worktree remove --force $wt
echo "tests-with-patch: $t | demo-with-patch exit=$dw | demo-without exit=$dwo"
if [ "$dw" = "1" ] && [ "$dwo" = "0" ] && echo "$t" | grep -q "124 passed"; then
  mkdir -p /verif/seeded/$id
  cp "$src/seeded/$v.patch" /verif/seeded/$id/patch.diff
  cp "$src/seeded/${v}_demo.py" /verif/seeded/$id/demo.py
  cp "$src/seeded/${v}_notes.md" /verif/seeded/$id/notes.md
  python3 - <<PY
import json
json.dump({"property": "$prop", "id": "$id",
           "needs": open("/verif/seeded/$id/notes.md").read(),
           "confirmed": {"tests_with_patch": "$t", "demo_exit_with_patch": $dw, "demo_exit_without_patch": $dwo,
                         "how": "scratch worktree of /repo HEAD: git apply patch.diff; pytest PyXAB/tests; demo.py; git checkout; demo.py"},
           "detected_by": []}, open("/verif/seeded/$id/meta.json", "w"), indent=1)
PY
  echo "stored /verif/seeded/$id"
else
  echo "NOT CONFIRMED"
fi
