"""Field types of the PyXAB classes (sidecar; derived from the constructors in /repo).

`$N` is the node class a partition was instantiated with; a verification unit binds it.
`late=` lists fields that no constructor path is guaranteed to assign (reads carry a definedness obligation).
"""


def declare(ct):
    F = ct.declare_fields
    F("P_node", depth="int", index="int", parent="ref?:$N", children="list?[ref:$N]",
      domain="list[list[real]]", c_point="list[real]")
    F("Partition", domain="list[list[real]]", root="ref:$N", depth="int", node="cls:$N",
      node_list="list[list[ref:$N]]")
    F("KaryPartition", K="int")
    F("RandomKaryPartition", K="int")
    # K is written once, by the constructor; documented range K >= 2 (a field invariant: checked at the store, assumed at reads)
    ct.field_inv[("KaryPartition", "K")] = ("K >= 2", lambda t: t >= 2)
    ct.field_inv[("RandomKaryPartition", "K")] = ("K >= 2", lambda t: t >= 2)
    # ---- node classes of the algorithms
    F("HOO_node", b_value="float", u_value="float", visited_times="int", rewards="list[real:reward]", mean_reward="real")
    F("HCT_node", b_value="float", u_value="float", visited_times="int", rewards="list[real:reward]", mean_reward="real")
    F("VHCT_node", b_value="float", u_value="float", visited_times="int", rewards="list[real:reward]", mean_reward="real",
      minvariance="real", variance="real", tau="real")
    F("DOO_node", b_value="float", reward="float", visited="bool")
    F("SOO_node", reward="float", visited="bool")
    F("StoSOO_node", b_value="float", visited_times="int", rewards="list[real:reward]", mean_reward="real")
    F("SequOOL_node", rewards="list[real:reward]", mean_reward="real", opened="bool")
    F("StroquOOL_node", visited_times="int", opened="bool", rewards="list[real:reward]", mean_reward="float")
    F("VROOM_node", reward="list[real:reward]", rank="list[int]", reward_tilde="list[real:rtilde]")
    # ---- algorithms
    F("T_HOO", partition="ref:Partition", iteration="int", nu="real", rho="real", rounds="int",
      path="list[ref:$N]", late=("path",))
    F("HCT", partition="ref:Partition", iteration="int", nu="real", rho="real", delta="real", c="real", c1="real",
      tau_h="list[real:tau]", curr_node="ref:$N", path="list[ref:$N]", late=("curr_node", "path"))
    F("VHCT", partition="ref:Partition", iteration="int", nu="real", rho="real", delta="real", bound="real", c="real",
      c1="real", curr_node="ref:$N", path="list[ref:$N]", late=("curr_node", "path"))

    F("DOO", partition="ref:Partition", iteration="int", n="int", curr_node="ref:$N", delta="fn", late=("curr_node", "delta"))
    F("SOO", partition="ref:Partition", iteration="int", n="int", h_max="int", curr_node="ref?:$N")
    F("StoSOO", partition="ref:Partition", iteration="int", n="int", k="real", delta="real", h_max="int", b_max="float",
      max_b_node_ind="int", max_b_node_h="int", late=("b_max", "max_b_node_ind", "max_b_node_h"))
    F("SequOOL", partition="ref:Partition", iteration="int", h_max="int", curr_depth="int", loc="int", open_loc="int",
      chosen="list[ref:$N]", budget="int", curr_node="ref:$N", late=("budget", "curr_node"))
    F("StroquOOL", partition="ref:Partition", iteration="int", h_max="int", p_max="int", curr_depth="int", curr_p="int",
      chosen="list[ref:$N]", time_stamp="int", validation_p="int", candidate="list[ref?:$N]", curr_loc="int", curr_node="ref:$N",
      eval="bool", max_node="ref?:$N", end="bool")
    F("point", p="list[real]")
    F("Zooming", partition="ref:Partition", iteration="int", nu="real", rho="real", phase="int", next_end_time="int", time="int",
      best_arm="ref?:point", active_points="dict[ref:point,ref:$N]", pulled_times="dict[ref:point,int]",
      average_rewards="dict[ref:point,real]")
    # the base learner handed to POO / GPO as a class: an interface with assumed contracts (contracts/poo.py)
    ct.declare_interface("Learner", {"__init__": ["self", "nu", "rho", "rounds", "domain", "partition"],
                                     "pull": ["self", "time"], "receive_reward": ["self", "time", "reward"]})
    F("POO", rounds="int", rhomax="real", numax="real", Dmax="real", domain="list[list[real]]", partition="cls:Partition",
      algo="cls:Learner", N="int", n="int", phase="int", curr_algo="ref?:Learner", counter="int", goodx="list?[real]",
      V_algo="list[ref:Learner]", V_reward="list[real:score]", Times="list[int]", algo_counter="int", late=("algo_counter",))
    F("GPO", rounds="int", rhomax="real", numax="real", Dmax="real", domain="list[list[real]]", partition="cls:Partition",
      algo="cls:Learner", N="real", phase="int", curr_algo="ref?:Learner", half_phase_length="real", counter="int",
      goodx="list?[real]", V_x="list[list[real]]", V_reward="list[real:score]")
    F("PCT", algorithm="ref:GPO")
    F("VPCT", algorithm="ref:GPO")
    # ---- synthetic objectives
    for c in ("Garland", "DoubleSine", "DifficultFunc", "Ackley", "Ackley_Normalized", "Himmelblau", "Himmelblau_Normalized",
              "Rastrigin", "Rastrigin_Normalized", "Cexample", "Perturbed_Garland", "Perturbed_DoubleSine"):
        F(c, fmax="real")
    F("Perturbed_Garland", perturb="real")
    F("DoubleSine", ep1="real", ep2="real", tmax="real")
    F("Perturbed_DoubleSine", ep1="real", ep2="real", tmax="real", perturb="real")
    F("Rastrigin_Normalized", k="real")
