"""C07: get_last_point of the simple-regret algorithms returns the best evaluated candidate (argmax postconditions).
The class invariants the argmax relies on are stated as preconditions; the node constructors establish their part
(an unevaluated cell carries the sentinel reward -inf)."""
from contracts.partition import treewf


def register(reg):
    loop, pred = reg.loop, reg.pred

    def fn(q, **kw):
        kw.setdefault("nla", "uf")
        return reg.fn(q, **kw)
    NL = "self.partition.node_list"
    ALLN = "for h in range(self.partition.depth + 1) for k in range(len(%s[h]))" % NL
    # ---- fresh nodes
    pred("NodeInit", "c", "c.b_value == inf and c.reward == -inf and not c.visited", cls="DOO_node")
    pred("NodeInit", "c", "c.reward == -inf and not c.visited", cls="SOO_node")
    pred("NodeInit", "c", "c.b_value == inf and c.visited_times == 0 and len(c.rewards) == 0 and fresh(c.rewards) "
                          "and owner(c.rewards) is c and c.mean_reward == 0", cls="StoSOO_node")
    pred("NodeInit", "c", "len(c.rewards) == 0 and fresh(c.rewards) and owner(c.rewards) is c and c.mean_reward == 0 and not c.opened",
         cls="SequOOL_node")
    pred("NodeInit", "c", "c.visited_times == 0 and len(c.rewards) == 0 and fresh(c.rewards) and owner(c.rewards) is c "
                          "and c.mean_reward == -inf and not c.opened", cls="StroquOOL_node")
    NP = {"depth": "int", "index": "int", "parent": "ref?:$N", "domain": "list[list[real]]"}
    for C in ("DOO_node", "SOO_node"):
        fn(C + ".__init__", inline=True, props="C07", params=NP)
    for C in ("SequOOL_node", "StroquOOL_node"):
        fn(C + ".__init__", inline=True, props="C07", params=NP, ghost_after=["owner(self.rewards) := self"])

    # ---- DOO / SOO: argmax of the stored reward over all cells; unevaluated cells hold -inf, evaluated ones a finite reward
    for A, Nn in (("DOO", "DOO_node"), ("SOO", "SOO_node")):
        INV = treewf("self.partition", props="C03 C01") + [
            ("sentinel", "all(%s[h][k].reward == -inf or isfin(%s[h][k].reward) %s)" % (NL, NL, ALLN), "C07")]
        fn(A + ".get_last_point", N=[Nn], props="C01 C07", params={}, returns="list[real]",
           locals={"max_node": "ref?:$N", "max_value": "float"},
           requires=INV, modifies=[],
           ensures=[("argmax", "result is m.c_point and 0 <= m.depth and m.depth <= self.partition.depth and m in %s[m.depth] "
                               "and all(%s[h][k].reward <= m.reward %s)" % (NL, NL, ALLN), "C07", {"m": ("ref:$N", "max_node")})])
    # DOO: `for i in node_list: for node in i`
    loop("DOO.get_last_point", 0, props="C07",
         invariants=[("none", "implies(max_node is None, _k == 0 and max_value == -inf)"),
                     ("max", "implies(max_node is not None, max_node.reward == max_value and 0 <= max_node.depth and "
                             "max_node.depth <= self.partition.depth and max_node in %s[max_node.depth])" % NL),
                     ("seen", "all(%s[h][k].reward <= max_value for h in range(_k) for k in range(len(%s[h])))" % (NL, NL))])
    loop("DOO.get_last_point", 1, props="C07",
         invariants=[("none", "implies(max_node is None, _k0 == 0 and _k == 0 and max_value == -inf)"),
                     ("ctx", "i is %s[_k0] and 0 <= _k0 and _k0 <= self.partition.depth" % NL),
                     ("max", "implies(max_node is not None, max_node.reward == max_value and 0 <= max_node.depth and "
                             "max_node.depth <= self.partition.depth and max_node in %s[max_node.depth])" % NL),
                     ("seen", "all(%s[h][k].reward <= max_value for h in range(_k0) for k in range(len(%s[h])))" % (NL, NL)),
                     ("prefix", "all(i[k].reward <= max_value for k in range(_k))")])
    # SOO: `for h in range(len(node_list)): for node in node_list[h]`
    loop("SOO.get_last_point", 0, props="C07", var="h",
         invariants=[("none", "implies(max_node is None, h == 0 and max_value == -inf)"),
                     ("nl", "node_list is %s" % NL),
                     ("max", "implies(max_node is not None, max_node.reward == max_value and 0 <= max_node.depth and "
                             "max_node.depth <= self.partition.depth and max_node in %s[max_node.depth])" % NL),
                     ("seen", "all(%s[h2][k].reward <= max_value for h2 in range(h) for k in range(len(%s[h2])))" % (NL, NL))])
    loop("SOO.get_last_point", 1, props="C07",
         invariants=[("none", "implies(max_node is None, h == 0 and _k == 0 and max_value == -inf)"),
                     ("nl", "node_list is %s and 0 <= h and h <= self.partition.depth" % NL),
                     ("max", "implies(max_node is not None, max_node.reward == max_value and 0 <= max_node.depth and "
                             "max_node.depth <= self.partition.depth and max_node in %s[max_node.depth])" % NL),
                     ("seen", "all(%s[h2][k].reward <= max_value for h2 in range(h) for k in range(len(%s[h2])))" % (NL, NL)),
                     ("prefix", "all(%s[h][k].reward <= max_value for k in range(_k))" % NL)])

    # ---- StoSOO: a deepest-level cell with the highest recorded mean (0 while unevaluated)
    fn("StoSOO.get_last_point", N=["StoSOO_node"], props="C01 C07", params={}, returns="list?[real]",
       locals={"max_x": "list?[real]", "max_mu": "float"},
       requires=treewf("self.partition", props="C03 C01"), modifies=[],
       ensures=[("argmax", "any(result is %s[self.partition.depth][q].c_point "
                           "and all(%s[self.partition.depth][k].mean_reward <= %s[self.partition.depth][q].mean_reward "
                           "for k in range(len(%s[self.partition.depth]))) for q in range(len(%s[self.partition.depth])))"
                           % (NL, NL, NL, NL, NL), "C07")])
    loop("StoSOO.get_last_point", 0, props="C07",
         invariants=[("none", "implies(max_x is None, _k == 0 and max_mu == -inf)"),
                     ("max", "implies(max_x is not None, any(max_x is %s[max_depth][q].c_point and xr(%s[max_depth][q].mean_reward) == max_mu "
                             "for q in range(_k)))" % (NL, NL)),
                     ("depth", "max_depth == self.partition.depth"),
                     ("seen", "all(xr(%s[max_depth][q].mean_reward) <= max_mu for q in range(_k))" % NL)])

    # ---- SequOOL: the chosen (evaluated) cell with the highest observed reward
    fn("SequOOL.get_last_point", N=["SequOOL_node"], props="C01 C07", params={}, returns="list[real]",
       locals={"max_node": "ref?:$N", "max_value": "float"},
       requires=[("chosen", "len(self.chosen) >= 1 and all(len(self.chosen[k].rewards) >= 1 for k in range(len(self.chosen)))", "C01 C07")],
       modifies=[],
       ensures=[("argmax", "result is m.c_point and m in self.chosen "
                           "and all(self.chosen[k].rewards[0] <= m.rewards[0] for k in range(len(self.chosen)))", "C07",
                 {"m": ("ref:$N", "max_node")})])
    loop("SequOOL.get_last_point", 0, props="C07",
         invariants=[("none", "implies(max_node is None, _k == 0 and max_value == -inf)"),
                     ("max", "implies(max_node is not None, max_node in self.chosen and xr(max_node.rewards[0]) == max_value)"),
                     ("seen", "all(xr(self.chosen[q].rewards[0]) <= max_value for q in range(_k))")])

    # ---- StroquOOL: the re-evaluated candidate with the highest validation mean
    fn("StroquOOL_node.compute_mean_reward", N=["StroquOOL_node"], props="C07", params={},
       requires=[("cnt", "implies(self.visited_times > 0, len(self.rewards) > 0)", "C01")],
       modifies=["self.mean_reward"],
       ensures=[("mean", "implies(self.visited_times > 0, self.mean_reward == xr(lsum(self.rewards) / len(self.rewards)))", "C07"),
                ("kept", "implies(self.visited_times <= 0, self.mean_reward == old(self.mean_reward))", "C07")])
    fn("StroquOOL.get_last_point", N=["StroquOOL_node"], props="C01 C07", params={}, returns="list[real]",
       locals={"max_node": "ref?:$N", "max_value": "float"},
       requires=[("candidates", "len(self.candidate) >= 1 and all(self.candidate[k] is not None and "
                                "implies(self.candidate[k].visited_times > 0, len(self.candidate[k].rewards) > 0) "
                                "for k in range(len(self.candidate)))", "C01 C07")],
       modifies=["StroquOOL_node.mean_reward n where n in self.candidate"],
       ensures=[("argmax", "result is m.c_point and m in self.candidate "
                           "and all(self.candidate[k].mean_reward <= m.mean_reward for k in range(len(self.candidate)))", "C07",
                 {"m": ("ref:$N", "max_node")}),
                ("means", "all(implies(self.candidate[k].visited_times > 0, self.candidate[k].mean_reward == "
                          "xr(lsum(self.candidate[k].rewards) / len(self.candidate[k].rewards))) for k in range(len(self.candidate)))", "C07")])
    loop("StroquOOL.get_last_point", 0, props="C07",
         invariants=[("none", "implies(max_node is None, _k == 0 and max_value == -inf)"),
                     ("max", "implies(max_node is not None, max_node in self.candidate and max_node.mean_reward == max_value "
                             "and implies(max_node.visited_times > 0, max_node.mean_reward == xr(lsum(max_node.rewards) / len(max_node.rewards))))"),
                     ("seen", "all(self.candidate[q].mean_reward <= max_value for q in range(_k))"),
                     ("means", "all(implies(self.candidate[q].visited_times > 0, self.candidate[q].mean_reward == "
                               "xr(lsum(self.candidate[q].rewards) / len(self.candidate[q].rewards))) for q in range(_k))")])
