"""Contracts for PyXAB/partition: P_node, Partition, and the five make_children bodies (C02, C03, part of C01/C14)."""

NL = "P.node_list"


def treewf(p, props="C03", prefix="TreeWF"):
    """the representation invariant of a partition, one labelled clause per conjunct"""
    # (derivable, hence not listed: a node occurs once per layer <= uniq_index; layer lists pairwise distinct <= depths+shape;
    #  child lists of distinct nodes distinct <= every child's parent pointer)
    names = ["shape", "root", "depths", "leaves", "kids", "up", "noalias_layer", "geom", "uniq_index"]
    # the geometric clause (boxes, centre points) belongs to C02 / C01, not to the tree-consistency property C03
    return [("%s.%s" % (prefix, n), "TW_%s(%s)" % (n, p), props if n != "geom" else props.replace("C03", "C02 C01")) for n in names]


NODE_CLASSES = [None, "HOO_node", "HCT_node", "VHCT_node", "DOO_node", "SOO_node", "StoSOO_node", "SequOOL_node", "StroquOOL_node"]


def register(reg):
    loop, pred = reg.loop, reg.pred

    def fn(q, **kw):
        if q.endswith(".make_children") and not kw.get("abstract") or (q.endswith(".__init__") and "Partition" in q):
            kw.setdefault("N", NODE_CLASSES)
            kw.setdefault("N_light", True)
        return reg.fn(q, **kw)

    # ------------------------------------------------------------------ shared predicates
    pred("Box", "dom",
         "len(dom) >= 1 and all(len(dom[j]) == 2 and dom[j][0] <= dom[j][1] for j in range(len(dom)))")
    pred("IsCentre", "pt, dom",
         "len(pt) == len(dom) and all(pt[j] == (dom[j][0] + dom[j][1]) / 2 for j in range(len(dom)))")
    pred("Arity", "P", "arity_of(P)")
    pred("Arity", "P", "2", cls="BinaryPartition")
    pred("Arity", "P", "2", cls="RandomBinaryPartition")
    pred("Arity", "P", "P.K", cls="KaryPartition")
    pred("Arity", "P", "P.K", cls="RandomKaryPartition")
    pred("Arity", "P", "pow2(len(P.domain))", cls="DimensionBinaryPartition")

    both = "for h in range(P.depth + 1) for k in range(len(P.node_list[h]))"
    pred("TW_shape", "P", "P.depth >= 0 and len(P.node_list) == P.depth + 1 "
                          "and all(len(P.node_list[h]) >= 1 and P.node_list[h][0].depth == h for h in range(P.depth + 1))")
    pred("TW_root", "P", "len(P.node_list[0]) == 1 and P.node_list[0][0] is P.root and P.root in P.node_list[0] and P.root.parent is None "
                         "and P.root.index == 1 and P.root.domain is P.domain")
    pred("TW_listed", "P", "all(P.node_list[h][k] in P.node_list[h] %s)" % both)
    pred("TW_depths", "P", "all(P.node_list[h][k].depth == h %s)" % both)
    pred("TW_nodup", "P", "all(implies(P.node_list[h][k] is P.node_list[h][k2], k == k2) %s "
                          "for k2 in range(len(P.node_list[h])))" % both)
    pred("TW_leaves", "P", "all(P.node_list[P.depth][k].children is None for k in range(len(P.node_list[P.depth])))")
    pred("Kids", "P, n, h",
         "h < P.depth and len(n.children) == Arity(P) and all(n.children[j].parent is n and n.children[j].depth == h + 1 "
         "and n.children[j] in P.node_list[n.children[j].depth] and n.children[j].index == kidx(Arity(P), n.index, j) "
         "for j in range(len(n.children)))")
    pred("TW_kids", "P", "all(implies(P.node_list[h][k].children is not None, Kids(P, P.node_list[h][k], h)) %s)" % both)
    pred("TW_up", "P", "all(P.node_list[h][k].parent is not None and P.node_list[h][k].parent.depth == h - 1 "
                       "and P.node_list[h][k].parent in P.node_list[P.node_list[h][k].parent.depth] "
                       "and P.node_list[h][k].parent.children is not None "
                       "and P.node_list[h][k] in P.node_list[h][k].parent.children "
                       "for h in range(1, P.depth + 1) for k in range(len(P.node_list[h])))")
    pred("TW_noalias_layer", "P", "all(P.node_list[h][k].children is not P.node_list[h2] %s "
                                  "for h2 in range(P.depth + 1))" % both)
    pred("TW_noalias_kids", "P",
         "all(implies(P.node_list[h][k].children is not None and P.node_list[h][k].children is P.node_list[h2][k2].children, "
         "P.node_list[h][k] is P.node_list[h2][k2]) %s for h2 in range(P.depth + 1) for k2 in range(len(P.node_list[h2])))" % both)
    pred("TW_layers_distinct", "P", "all(implies(P.node_list[h] is P.node_list[h2], h == h2) "
                                    "for h in range(P.depth + 1) for h2 in range(P.depth + 1))")
    pred("TW_geom", "P", "all(Box(P.node_list[h][k].domain) and len(P.node_list[h][k].domain) == len(P.domain) "
                         "and IsCentre(P.node_list[h][k].c_point, P.node_list[h][k].domain) %s)" % both)
    pred("TW_uniq_index", "P", "all(implies(P.node_list[h][k].index == P.node_list[h][k2].index, k == k2) %s "
                               "for k2 in range(len(P.node_list[h])))" % both)

    # ------------------------------------------------------------------ P_node.__init__
    fn("P_node.__init__", props="C01 C02 C03 C14 C16",
       params={"depth": "int", "index": "int", "parent": "ref?:$N", "domain": "list[list[real]]"},
       locals={"point": "list[real]"},
       requires=[("box2", "all(len(domain[j]) == 2 for j in range(len(domain)))")],
       ensures=[
           ("fields", "self.depth == depth and self.index == index and self.parent is parent "
                      "and self.children is None and self.domain is domain"),
           ("cpoint-fresh", "fresh(self.c_point)", "C02 C14"),
           ("cpoint-centre", "IsCentre(self.c_point, domain)", "C02 C16"),
       ])
    loop("P_node.__init__", 0, props="C02",
         invariants=[
             ("len", "len(point) == _k"),
             ("fresh", "fresh(point)"),
             ("centre", "all(point[j] == (domain[j][0] + domain[j][1]) / 2 for j in range(_k))"),
             ("self", "self.domain is domain"),
         ])

    # ------------------------------------------------------------------ Partition.make_children (abstract)
    fn("Partition.make_children", abstract=True, props="C01 C02 C03",
       params={"parent": "ref:$N", "newlayer": "bool"},
       requires=treewf("self") + [
           ("parent-listed", "0 <= parent.depth and parent.depth <= self.depth and parent in self.node_list[parent.depth]",
            "C03 C06"),
           ("parent-leaf", "parent.children is None", "C03 C04 C06"),
           ("layer-flag", "newlayer == (parent.depth == self.depth)", "C03"),
       ],
       modifies=["parent.children", "self.depth", "list(self.node_list)",
                 "list(self.node_list[parent.depth + 1]) when not newlayer"],
       ensures=treewf("self") + [
           ("depth", "self.depth == old(self.depth) + (1 if newlayer else 0)", "C03"),
           ("arity", "parent.children is not None and fresh(parent.children) and len(parent.children) == Arity(self)",
            "C02 C03"),
           ("kids-fresh", "all(fresh(parent.children[j]) and parent.children[j].children is None "
                          "and NodeInit(parent.children[j]) for j in range(len(parent.children)))", "C03 C06"),
           ("layers-kept", "all(self.node_list[h] is old(self.node_list[h]) for h in range(old(self.depth) + 1))", "C03"),
           ("layers-append-only",
            "all(self.node_list[h][k] is old(self.node_list[h][k]) for h in range(old(self.depth) + 1) "
            "for k in range(old(len(self.node_list[h]))))", "C03 C04"),
           ("layer-lens", "all(len(self.node_list[h]) == old(len(self.node_list[h])) + "
                          "(len(parent.children) if h == parent.depth + 1 else 0) for h in range(old(self.depth) + 1))", "C03"),
           ("new-layer", "implies(newlayer, len(self.node_list[self.depth]) == len(parent.children))", "C03"),
           ("decomp", "all((h <= old(self.depth) and k < old(len(self.node_list[h])) and self.node_list[h][k] is old(self.node_list[h][k])) "
                      "or (self.node_list[h][k] in parent.children) "
                      "for h in range(self.depth + 1) for k in range(len(self.node_list[h])))", "C03 C04"),
           ("new-elems", "implies(newlayer, all(self.node_list[parent.depth + 1][j] is parent.children[j] "
                         "for j in range(len(parent.children))))", "C03 C04"),
           ("new-elems-ext", "implies(not newlayer, all(self.node_list[parent.depth + 1][k] is "
                             "parent.children[k - old(len(self.node_list[parent.depth + 1]))] "
                             "for k in range(old(len(self.node_list[parent.depth + 1])), len(self.node_list[parent.depth + 1]))))",
            "C03 C04"),
       ])

    # ------------------------------------------------------------------ geometry of a split (C02)
    pred("SameInterval", "c, p, j", "c.domain[j][0] == p.domain[j][0] and c.domain[j][1] == p.domain[j][1]")
    pred("ChainSplit", "parent, s",
         "0 <= s and s < len(parent.domain) "
         "and all(parent.children[i].domain[s][0] <= parent.children[i].domain[s][1] for i in range(len(parent.children))) "
         "and parent.children[0].domain[s][0] == parent.domain[s][0] "
         "and parent.children[len(parent.children) - 1].domain[s][1] == parent.domain[s][1] "
         "and all(parent.children[i].domain[s][1] == parent.children[i + 1].domain[s][0] "
         "for i in range(len(parent.children) - 1)) "
         "and all(implies(j != s, SameInterval(parent.children[i], parent, j)) "
         "for i in range(len(parent.children)) for j in range(len(parent.domain)))")
    pred("EqualWidths", "parent, s",
         "all(parent.children[i].domain[s][1] - parent.children[i].domain[s][0] == "
         "(parent.domain[s][1] - parent.domain[s][0]) / len(parent.children) for i in range(len(parent.children)))")
    pred("DomainFresh", "c",
         "fresh(c.domain) and all(fresh(c.domain[j]) for j in range(len(c.domain))) and fresh(c.c_point)")
    pred("NodeInit", "c", "True")

    # "there is a split dimension s such that ..." : the witness is the local `dim` of the body
    CHAIN = ("chain", "ChainSplit(parent, s)", "C02 C16", {"s": ("int", "dim")})
    EQUAL = ("equal-widths", "ChainSplit(parent, s) and EqualWidths(parent, s)", "C02", {"s": ("int", "dim")})
    KFRESH = ("kids-own-lists", "all(DomainFresh(parent.children[j]) for j in range(len(parent.children)))", "C14 C02")
    MC_PARAMS = {"parent": "ref:$N", "newlayer": "bool"}

    # ------------------------------------------------------------------ BinaryPartition / RandomBinaryPartition
    fn("BinaryPartition.make_children", implements="Partition.make_children", props="C01 C02 C03 C14 C16",
       params=MC_PARAMS, locals={"new_deepest": "list[ref:$N]"}, ensures=[CHAIN, EQUAL, KFRESH])
    fn("RandomBinaryPartition.make_children", implements="Partition.make_children", props="C01 C02 C03 C14 C16",
       params=MC_PARAMS, locals={"new_deepest": "list[ref:$N]"}, ensures=[CHAIN, KFRESH])

    # ------------------------------------------------------------------ KaryPartition / RandomKaryPartition
    kary_inv = [
        ("len", "len(new_nodes) == i and fresh(new_nodes)", "C01 C02 C03"),
        ("kids-fresh", "all(fresh(new_nodes[j]) and new_nodes[j] in new_nodes for j in range(i))", "C03 C14"),
        ("kids-links", "all(new_nodes[j].parent is parent and new_nodes[j].depth == parent.depth + 1 "
                       "and new_nodes[j].index == self.K * parent.index - (self.K - j - 1) "
                       "and new_nodes[j].children is None and NodeInit(new_nodes[j]) for j in range(i))", "C03"),
        ("kids-kidx", "all(new_nodes[j].index == kidx(self.K, parent.index, j) for j in range(i))", "C03"),
        ("kids-lists", "all(DomainFresh(new_nodes[j]) and len(new_nodes[j].domain) == len(parent_domain) "
                       "and all(len(new_nodes[j].domain[d]) == 2 for d in range(len(parent_domain))) for j in range(i))", "C01 C02 C14"),
        ("kids-centre", "all(IsCentre(new_nodes[j].c_point, new_nodes[j].domain) for j in range(i))", "C02"),
        ("kids-other-dims", "all(implies(d != dim, new_nodes[j].domain[d][0] == parent_domain[d][0] "
                            "and new_nodes[j].domain[d][1] == parent_domain[d][1]) "
                            "for j in range(i) for d in range(len(parent_domain)))", "C02 C16"),
    ]
    fn("KaryPartition.make_children", implements="Partition.make_children", props="C01 C02 C03 C14 C16",
       params=MC_PARAMS, locals={"new_nodes": "list[ref:$N]"},
       ensures=[CHAIN, EQUAL, KFRESH])
    loop("KaryPartition.make_children", 0, props="C02", var="i", modifies=["list(new_nodes)"],
         invariants=kary_inv + [
             ("kids-split", "all(new_nodes[j].domain[dim][0] == boundary_points[j] "
                            "and new_nodes[j].domain[dim][1] == boundary_points[j + 1] for j in range(i))"),
         ])
    fn("RandomKaryPartition.make_children", implements="Partition.make_children", props="C01 C02 C03 C14 C16",
       params=MC_PARAMS, locals={"new_nodes": "list[ref:$N]"},
       ensures=[CHAIN, KFRESH])
    loop("RandomKaryPartition.make_children", 0, props="C02", var="i", modifies=["list(new_nodes)"],
         invariants=kary_inv + [
             ("bp-range", "selected_dim[0] <= boundary_point_1 and boundary_point_1 <= selected_dim[1] "
                          "and selected_dim[0] <= boundary_point_0 and boundary_point_0 <= boundary_point_1"),
             ("bp-first", "implies(i == 0, boundary_point_0 == selected_dim[0])"),
             ("bp-last", "implies(i > 0, boundary_point_1 == new_nodes[i - 1].domain[dim][1])"),
             ("bp-end", "implies(i == self.K, boundary_point_1 == selected_dim[1])"),
             ("kids-chain", "all(new_nodes[j].domain[dim][0] <= new_nodes[j].domain[dim][1] for j in range(i)) "
                            "and implies(i > 0, new_nodes[0].domain[dim][0] == selected_dim[0]) "
                            "and all(new_nodes[j].domain[dim][1] == new_nodes[j + 1].domain[dim][0] for j in range(i - 1))"),
         ])

    # ------------------------------------------------------------------ DimensionBinaryPartition
    fn("DimensionBinaryPartition.make_children", implements="Partition.make_children", props="C01 C02 C03 C14 C16",
       params=MC_PARAMS,
       locals={"children_list": "list[ref:$N]", "combination_list": "list[list[list[real]]]", "domain": "list[list[real]]"},
       ensures=[
           ("halves", "all(HalfOf(parent.children[i], parent, p) for i in range(len(parent.children)) "
                      "for p in range(len(parent.domain)))", "C02 C16"),
           KFRESH,
       ])
    pred("HalfOf", "c, parent, p",
         "(c.domain[p][0] == parent.domain[p][0] and c.domain[p][1] == (parent.domain[p][0] + parent.domain[p][1]) / 2) or "
         "(c.domain[p][0] == (parent.domain[p][0] + parent.domain[p][1]) / 2 and c.domain[p][1] == parent.domain[p][1])")
    pred("CombOK", "cl, dom, q",
         "fresh(cl[q]) and len(cl[q]) == 2 and fresh(cl[q][0]) and fresh(cl[q][1]) and len(cl[q][0]) == 2 and len(cl[q][1]) == 2 "
         "and cl[q][0][0] == dom[q][0] and cl[q][0][1] == (dom[q][0] + dom[q][1]) / 2 "
         "and cl[q][1][0] == (dom[q][0] + dom[q][1]) / 2 and cl[q][1][1] == dom[q][1]")
    loop("DimensionBinaryPartition.make_children", 0, props="C02 C01", var="dim", modifies=["list(combination_list)"],
         invariants=[
             ("len", "len(combination_list) == dim and fresh(combination_list)"),
             ("combs", "all(CombOK(combination_list, parent_domain, q) for q in range(dim))"),
         ])
    loop("DimensionBinaryPartition.make_children", 1, props="C02", var="i", modifies=["list(children_list)"],
         invariants=[
             ("len", "len(children_list) == i and fresh(children_list)", "C01 C02 C03"),
             ("combs", "len(combination_list) == len(parent_domain) and "
                       "all(CombOK(combination_list, parent_domain, q) for q in range(len(parent_domain)))"),
             ("kids-fresh", "all(fresh(children_list[j]) and children_list[j] in children_list for j in range(i))", "C03 C14"),
             ("kids-links", "all(children_list[j].parent is parent and children_list[j].depth == parent.depth + 1 "
                            "and children_list[j].index == kidx(num_children, parent.index, j) "
                            "and children_list[j].children is None and NodeInit(children_list[j]) for j in range(i))", "C03"),
             ("kids-lists", "all(fresh(children_list[j].domain) and fresh(children_list[j].c_point) "
                            "and len(children_list[j].domain) == len(parent_domain) for j in range(i))"),
             ("kids-halves", "all(children_list[j].domain[p] is combination_list[p][0] or "
                             "children_list[j].domain[p] is combination_list[p][1] "
                             "for j in range(i) for p in range(len(parent_domain)))"),
             ("kids-centre", "all(IsCentre(children_list[j].c_point, children_list[j].domain) for j in range(i))"),
         ])
    loop("DimensionBinaryPartition.make_children", 2, props="C02 C01", var="dim", modifies=["list(domain)"],
         invariants=[
             ("ind", "0 <= ind and ind < pow2(len(parent_domain) - dim)"),
             ("len", "len(domain) == dim and fresh(domain)"),
             ("picked", "all(domain[q] is combination_list[len(parent_domain) - q - 1][0] or "
                        "domain[q] is combination_list[len(parent_domain) - q - 1][1] for q in range(dim))"),
         ])

    # ------------------------------------------------------------------ constructors
    PINIT_ENS = treewf("self") + [
        ("fields", "self.domain is domain and self.depth == 0 and self.node == node", "C03 C14"),
        ("root", "fresh(self.root) and NodeInit(self.root) and self.root.children is None and fresh(self.node_list)", "C03 C06"),
    ]
    fn("Partition.__init__", props="C01 C02 C03 C14",
       params={"domain": "list[list[real]]", "node": "cls:$N"},
       requires=[("box", "Box(domain)", "C01 C02")],
       ensures=PINIT_ENS)
    for P in ("BinaryPartition", "RandomBinaryPartition", "DimensionBinaryPartition"):
        fn(P + ".__init__", props="C01 C02 C03 C14",
           params={"domain": "list?[list[real]]", "node": "cls:$N"},
           requires=[("box", "implies(domain is not None, Box(domain))", "C01 C02")],
           raises={"ValueError": "domain is None"},
           ensures=PINIT_ENS)
    for P in ("KaryPartition", "RandomKaryPartition"):
        fn(P + ".__init__", props="C01 C02 C03 C14",
           params={"domain": "list?[list[real]]", "K": "int", "node": "cls:$N"},
           requires=[("box", "implies(domain is not None, Box(domain))", "C01 C02"), ("K", "K >= 2", "C01 C02")],
           raises={"ValueError": "domain is None"},
           ensures=PINIT_ENS + [("K", "self.K == K", "C02 C03")])

    # ------------------------------------------------------------------ Partition.deepen
    fn("Partition.deepen", props="C01 C03 C13",
       params={},
       requires=treewf("self"),
       modifies=["P_node.children n where n in self.node_list[self.depth]", "self.depth", "list(self.node_list)"],
       ensures=treewf("self") + [
           ("depth", "self.depth == old(self.depth) + 1", "C03 C13"),
           ("layers-kept", "all(self.node_list[h] is old(self.node_list[h]) and len(self.node_list[h]) == old(len(self.node_list[h])) "
                           "for h in range(old(self.depth) + 1))", "C03"),
           ("layers-append-only",
            "all(self.node_list[h][k] is old(self.node_list[h][k]) for h in range(old(self.depth) + 1) "
            "for k in range(old(len(self.node_list[h]))))", "C03"),
           ("all-expanded", "all(self.node_list[old(self.depth)][k].children is not None "
                            "for k in range(len(self.node_list[old(self.depth)])))", "C03 C13"),
           ("inner-untouched", "all(self.node_list[h][k].children is old(self.node_list[h][k].children) "
                               "for h in range(old(self.depth)) for k in range(len(self.node_list[h])))", "C03 C04"),
           ("layer-size", "len(self.node_list[self.depth]) == Arity(self) * old(len(self.node_list[self.depth]))", "C13"),
       ])
    loop("Partition.deepen", 0, props="C03 C13", var="i",
         invariants=treewf("self") + [
             ("depth", "self.depth == depth + (1 if i > 0 else 0) and depth == old(self.depth)"),
             ("layers-kept", "all(self.node_list[h] is old(self.node_list[h]) and len(self.node_list[h]) == old(len(self.node_list[h])) "
                             "for h in range(depth + 1))"),
             ("layers-append-only", "all(self.node_list[h][k] is old(self.node_list[h][k]) for h in range(depth + 1) "
                                    "for k in range(old(len(self.node_list[h]))))"),
             ("done", "all(self.node_list[depth][k].children is not None for k in range(i))"),
             ("todo", "all(self.node_list[depth][k].children is None for k in range(i, len(self.node_list[depth])))"),
             ("inner-untouched", "all(self.node_list[h][k].children is old(self.node_list[h][k].children) "
                                 "for h in range(depth) for k in range(len(self.node_list[h])))"),
             ("layer-size", "implies(i > 0, len(self.node_list[depth + 1]) == Arity(self) * i)"),
             ("new-layer-fresh", "implies(i > 0, fresh(self.node_list[depth + 1]))"),
         ])
