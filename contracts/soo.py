"""SOO (C08, C03 call site, C04, C01): the sweep of pull."""
from contracts.partition import treewf


def register(reg):
    loop, pred = reg.loop, reg.pred

    def fn(q, **kw):
        kw.setdefault("nla", "uf")
        return reg.fn(q, **kw)
    N = ["SOO_node"]
    NL = "self.partition.node_list"
    ALLN = "for h in range(self.partition.depth + 1) for k in range(len(%s[h]))" % NL
    INV = treewf("self.partition", props="C03 C01") + [
        ("sentinel", "all(%s[h][k].reward == -inf or isfin(%s[h][k].reward) %s)" % (NL, NL, ALLN), "C07 C08"),
        ("unvisited", "all(implies(not %s[h][k].visited, %s[h][k].reward == -inf) %s)" % (NL, NL, ALLN), "C07 C08"),
        # only evaluated leaves are ever expanded
        ("internal-visited", "all(implies(%s[h][k].children is not None, %s[h][k].visited) %s)" % (NL, NL, ALLN), "C08"),
        ("cap", "self.h_max >= 0", "C01"),
    ]
    KEPT = ("kept", "old(self.partition.depth) <= self.partition.depth "
                    "and all(len(%s[g]) >= old(len(%s[g])) for g in range(old(self.partition.depth) + 1)) "
                    "and all(%s[g][k] is old(%s[g][k]) and %s[g][k].reward == old(%s[g][k].reward) "
                    "for g in range(old(self.partition.depth) + 1) for k in range(old(len(%s[g]))))" % (NL, NL, NL, NL, NL, NL, NL), "C04")
    SWEPT = "all(implies(%s[g][k].children is None, %s[g][k].visited) for g in range(%%s) for k in range(len(%s[g])))" % (NL, NL, NL)
    fn("SOO.pull", N=N, props="C01 C03 C04 C08 C15", params={"time": "int"}, returns="list[real]",
       locals={"max_node": "ref?:$N", "max_value": "float", "v_max": "float"},
       requires=INV,
       modifies=["self.iteration", "self.curr_node", "*SOO_node.visited", "*P_node.children", "self.partition.depth",
                 "list(self.partition.node_list)", "*list[ref:SOO_node]"],
       ensures=INV + [
           ("handed", "result is self.curr_node.c_point and self.curr_node.children is None and self.curr_node.visited "
                      "and self.curr_node.reward == -inf", "C04 C08"),
           ("cap", "0 <= self.curr_node.depth and self.curr_node.depth <= self.h_max and self.curr_node.depth <= self.partition.depth "
                   "and self.curr_node in %s[self.curr_node.depth]" % NL, "C08"),
           # the handed-out cell is the first unevaluated leaf in top-down order
           ("first", (SWEPT % "self.curr_node.depth") + " and all(implies(%s[self.curr_node.depth][k].children is None, "
                     "%s[self.curr_node.depth][k].visited) for k in range(pos))" % (NL, NL) +
                     " and %s[self.curr_node.depth][pos] is self.curr_node" % NL, "C08", {"pos": ("int", "_k2")}),
           ("rewards-kept", "all(%s[h][k].reward == old(%s[h][k].reward) for h in range(old(self.partition.depth) + 1) "
                            "for k in range(old(len(%s[h]))))" % (NL, NL, NL), "C04"),
       ])
    # loop 0: `while True` (one sweep per iteration) -- no variant: termination of the sweeps is NOT proved
    loop("SOO.pull", 0, props="C08", invariants=list(INV) + [("nl", "node_list is %s" % NL, "C08"), KEPT])
    loop("SOO.pull", 1, props="C08",
         invariants=list(INV) + [
             ("nl", "node_list is %s and 0 <= h" % NL, "C08"),
             ("swept", SWEPT % "h", "C08"), KEPT,
         ])
    loop("SOO.pull", 2, props="C08",
         invariants=list(INV) + [
             ("nl", "node_list is %s and 0 <= h and h <= self.partition.depth and h <= self.h_max" % NL, "C08"),
             ("swept", SWEPT % "h", "C08"),
             ("prefix-visited", "all(implies(%s[h][k].children is None, %s[h][k].visited) for k in range(_k))" % (NL, NL), "C08"),
             ("none", "implies(max_node is None, max_value == -inf)", "C08"),
             ("max", "implies(max_node is not None, max_node.children is None and max_node.visited and max_node.depth == h "
                     "and max_node in %s[h] and max_node.reward == max_value)" % NL, "C08"),
             ("best", "all(implies(%s[h][k].children is None, %s[h][k].reward <= max_value) for k in range(_k))" % (NL, NL), "C08"), KEPT,
         ])
    # the expansion rule, stated right after the make_children call of the sweep
    reg.cut("SOO.pull", "call:make_children#0", props="C08", clauses=[
        ("expanded-evaluated-leaf", "max_node.visited and max_node.children is not None and max_node.depth == h", "C08"),
        ("expanded-best-of-depth", "all(implies(%s[h][k].children is None, %s[h][k].reward <= max_value) for k in range(len(%s[h]))) "
                                   "and max_node.reward == max_value" % (NL, NL, NL), "C08"),
        ("expanded-monotone", "max_value >= v_max", "C08"),
        ("no-unevaluated-leaf-before", (SWEPT % "h") + " and all(implies(%s[h][k].children is None, %s[h][k].visited) "
                                       "for k in range(len(%s[h])))" % (NL, NL, NL), "C08"),
    ])
    fn("SOO.receive_reward", N=N, props="C01 C04 C15", params={"time": "int", "reward": "real"},
       requires=[("pulled", "self.curr_node is not None", "C01 C04")],
       modifies=["self.curr_node.reward"],
       ensures=[("credited", "self.curr_node.reward == xr(reward)", "C04")])
    fn("SOO.__init__", N=N, props="C01 C03 C08",
       params={"n": "int", "h_max": "int", "domain": "list?[list[real]]", "partition": "cls?:Partition"},
       requires=[("ranges", "n >= 1 and h_max >= 0", "C01"), ("box", "implies(domain is not None, Box(domain))", "C01")],
       raises={"ValueError": "domain is None or partition is None"},
       ensures=INV)
