"""POO (C10, C04, C07, C01): routing of rounds and rewards to the base learners, running means, parameter grid.

The base learner is abstract (`Algorithm`): its constructor / pull / receive_reward are represented by assumed interface
contracts that only keep a ghost log (number of pulls, number and sum of delivered rewards, the (nu, rho) it was built
with).  T_HOO, HCT and VHCT, the three admissible learners, are verified separately (C01/C04/C05)."""


def register(reg):
    loop, pred = reg.loop, reg.pred
    G = reg.ghost_fields
    G["g_nu"] = "real"
    G["g_rho"] = "real"
    G["g_npull"] = "int"
    G["g_nrecv"] = "int"
    G["g_sum"] = "real"
    G["g_slot"] = "int"
    G["g_await"] = "int"      # typestate of the documented loop: 1 between pull and receive_reward

    def fn(q, **kw):
        kw.setdefault("nla", "uf")
        kw.setdefault("axioms", ["i2r-exact", "rpow-shrink", "rdiv-scale"])
        return reg.fn(q, **kw)

    # ---------------------------------------------------------------- the learner interface (assumed)
    fn("Learner.__init__", abstract=True, anyargs=True, props="C10",
       params={"nu": "real", "rho": "real", "rounds": "int", "domain": "list[list[real]]", "partition": "cls:Partition"},
       ensures=[("log", "g_nu(self) == nu and g_rho(self) == rho and g_npull(self) == 0 and g_nrecv(self) == 0 and g_sum(self) == 0", "C10")])
    fn("Learner.pull", abstract=True, props="C10", params={"time": "int"}, returns="list[real]",
       modifies=["ghost g_npull(self)"],
       ensures=[("log", "g_npull(self) == old(g_npull(self)) + 1", "C10")])
    fn("Learner.receive_reward", abstract=True, props="C10", params={"time": "int", "reward": "real"},
       modifies=["ghost g_nrecv(self)", "ghost g_sum(self)"],
       ensures=[("log", "g_nrecv(self) == old(g_nrecv(self)) + 1 and g_sum(self) == old(g_sum(self)) + reward", "C10 C04")])

    # ---------------------------------------------------------------- POO
    pred("POO_creating", "A", "A.N <= 0.5 * A.Dmax * ln(A.n / ln(A.n))")
    L = "len(self.V_algo)"
    Q = "ceil(self.n / self.N)"
    # is the last learner still being filled?  (creation epoch, and either some of its rounds are done or a pull is pending)
    CUR = "(1 if POO_creating(self) and (self.counter > 0 or g_await(self) == 1) else 0)"
    INV = [
        ("lens", "len(self.V_reward) == %s and len(self.Times) == %s" % (L, L), "C10 C01"),
        ("grid", "self.N >= 2 and self.n >= self.N and 0 <= self.phase and self.phase <= self.N and self.counter >= 0 "
                 "and %s >= 1 and self.rhomax > 0 and self.rhomax < 1 and self.numax > 0" % Q, "C10 C01"),
        ("learner-class", "self.algo.__name__ == 'T_HOO' or self.algo.__name__ == 'HCT' or self.algo.__name__ == 'VHCT'", "C10 C01"),
        ("slots", "all(g_slot(self.V_algo[i]) == i for i in range(%s))" % L, "C10"),
        ("scores", "all(self.Times[i] == g_nrecv(self.V_algo[i]) and self.Times[i] >= 0 and "
                   "(self.V_reward[i] == 0 and g_sum(self.V_algo[i]) == 0 if self.Times[i] == 0 else "
                   "self.V_reward[i] == g_sum(self.V_algo[i]) / self.Times[i]) "
                   "for i in range(%s))" % L, "C10 C04"),
        ("params", "all(g_nu(self.V_algo[i]) == self.numax and 0 < g_rho(self.V_algo[i]) and g_rho(self.V_algo[i]) < self.rhomax "
                   "for i in range(%s))" % L, "C10"),
        ("await", "g_await(self) == 0 or g_await(self) == 1", "C10"),
        ("current", "implies(%s == 1, %s >= 1 and self.Times[%s - 1] == self.counter and self.counter < %s "
                    "and POO_creating(self) and self.phase < self.N)" % (CUR, L, L, Q), "C10 C01"),
        ("nocurrent", "implies(%s == 0, self.counter == 0)" % CUR, "C10 C01"),
        ("full", "all(self.Times[i] == %s + (1 if (not POO_creating(self)) and i < self.algo_counter else 0) "
                 "for i in range(%s - %s))" % (Q, L, CUR), "C10"),
        ("rr", "implies(not POO_creating(self), defined(self.algo_counter) and 0 <= self.algo_counter and self.algo_counter < %s "
               "and self.counter == 0 and self.phase == 0)" % L, "C10 C01"),
        ("phase", "implies(POO_creating(self), self.phase < self.N)", "C10 C01"),
    ]
    SERVED = "(%s - 1 if POO_creating(self) else self.algo_counter)" % L
    KEPT = ("kept", "%s >= old(%s) and all(self.V_algo[i] is old(self.V_algo[i]) for i in range(old(%s)))" % (L, L, L), "C10")
    fn("POO.__init__", props="C01 C10 C14", N=[None], ghost_after=["g_await(self) := 0"],
       params={"numax": "real", "rhomax": "real", "rounds": "int", "domain": "list?[list[real]]", "partition": "cls?:Partition",
               "algo": "cls?:Learner"},
       requires=[("ranges", "numax > 0 and 0 < rhomax and rhomax < 1 and rounds >= 1", "C01")],
       raises={"ValueError": "domain is None or partition is None or algo is None",
               "NotImplementedError": "domain is not None and partition is not None and algo is not None and not "
                                      "(algo.__name__ == 'T_HOO' or algo.__name__ == 'HCT' or algo.__name__ == 'VHCT')"},
       ensures=[(c[0], "implies(POO_creating(self), %s)" % c[1], c[2]) for c in INV] + [
           ("empty", "%s == 0" % L, "C10"),
           # the documented range 0 < rhomax < 1 must let POO start (first creation test N = n = 2); it does only for rhomax >= 0.832
           ("starts", "POO_creating(self)", "C01")])
    fn("POO.pull", props="C01 C04 C10 C15", N=[None], params={"time": "int"}, returns="list[real]",
       requires=INV + [("domain", "self.domain is not None", "C01"), ("typestate", "g_await(self) == 0", "C10")],
       modifies=["list(self.V_algo)", "list(self.V_reward)", "list(self.Times)", "self.curr_algo",
                 "ghost g_npull(self.V_algo[self.algo_counter]) when not POO_creating(self)",
                 "ghost g_npull(self.V_algo[len(self.V_algo) - 1]) when POO_creating(self) and self.counter != 0"],
       ghost_after=["g_slot(self.V_algo[len(self.V_algo) - 1]) := len(self.V_algo) - 1", "g_await(self) := 1"],
       ensures=INV + [KEPT,
                      ("served-old", "implies(%s == old(%s), g_npull(self.V_algo[%s]) == old(g_npull(self.V_algo[%s])) + 1)" % (L, L, SERVED, SERVED), "C10"),
                      ("served-new", "implies(%s != old(%s), %s == old(%s) + 1 and POO_creating(self) and old(self.counter) == 0 "
                                     "and fresh(self.V_algo[%s - 1]) and g_npull(self.V_algo[%s - 1]) == 1 and g_nrecv(self.V_algo[%s - 1]) == 0 "
                                     "and g_nu(self.V_algo[%s - 1]) == self.numax)" % (L, L, L, L, L, L, L, L), "C10"),
                      ("others", "all(implies(i != %s, g_npull(self.V_algo[i]) == old(g_npull(self.V_algo[i]))) for i in range(old(%s)))" % (SERVED, L), "C10"),
                      ("ready", "%s >= 1 and g_await(self) == 1" % L, "C10 C01")])
    fn("POO.receive_reward", props="C01 C04 C10 C15", N=[None], params={"time": "int", "reward": "real"},
       requires=INV + [("pulled", "%s >= 1" % L, "C10 C01"), ("typestate", "g_await(self) == 1", "C10")],
       ghost_after=["g_await(self) := 0"],
       modifies=["list(self.V_reward)", "list(self.Times)", "self.counter", "self.phase", "self.n", "self.N", "self.algo_counter",
                 "ghost g_nrecv(self.V_algo[%s])" % SERVED, "ghost g_sum(self.V_algo[%s])" % SERVED],
       ensures=INV + [KEPT,
                      ("delivered", "g_nrecv(old(self.V_algo[%s])) == old(g_nrecv(self.V_algo[%s])) + 1 and "
                                    "g_sum(old(self.V_algo[%s])) == old(g_sum(self.V_algo[%s])) + reward" % (SERVED, SERVED, SERVED, SERVED), "C10 C04"),
                      ("others", "all(implies(i != old(%s), g_nrecv(self.V_algo[i]) == old(g_nrecv(self.V_algo[i])) and "
                                 "g_sum(self.V_algo[i]) == old(g_sum(self.V_algo[i]))) for i in range(%s))" % (SERVED, L), "C10 C04")])
    fn("POO.get_last_point", props="C01 C07 C10 C15", N=[None], params={}, returns="list[real]",
       requires=INV + [("some", "%s >= 1" % L, "C01 C07")],
       modifies=["ghost g_npull(self.V_algo[argmax_first(self.V_reward)])"],
       ensures=[("best", "g_npull(self.V_algo[argmax_first(self.V_reward)]) == old(g_npull(self.V_algo[argmax_first(self.V_reward)])) + 1 "
                         "and all(self.V_reward[i] <= self.V_reward[argmax_first(self.V_reward)] for i in range(%s))" % L, "C07 C10")])
