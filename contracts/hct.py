"""HCT (C01 C03 C04 C05 C06).  Same skeleton as T-HOO; differences: only the pulled cell is credited, the U-value uses
delta~ = min(1, c1*delta/t+), descent stops at a cell pulled fewer times than its threshold tau_h[depth]."""
from contracts.partition import treewf
from contracts.hoo import alg_inv
from pyvc.dsl import by_cases


def register(reg):
    loop, pred = reg.loop, reg.pred

    def fn(q, **kw):
        kw.setdefault("nla", "uf")
        return reg.fn(q, **kw)
    N = ["HCT_node"]
    NL = "self.partition.node_list"
    ALLN = "for h in range(self.partition.depth + 1) for k in range(len(%s[h]))" % NL
    RANGES = ("self.rho > 0 and self.rho < 1 and self.nu > 0 and self.delta > 0 and self.delta < 1 and self.c1 > 0 "
              "and self.iteration >= 1")
    INV = alg_inv("self", RANGES)

    # ---------------------------------------------------------------- t+ and the node's U-value
    # t+ : the least power of two that is >= x  (over the reals; in doubles np.log(x)/np.log(2) first rounds wrongly at x = 2**29)
    for q in ("compute_t_plus", "PyXAB.algos.VHCT.compute_t_plus"):      # HCT.py and VHCT.py each carry a copy
        fn(q, props="C01 C05", params={"x": "int"}, returns="real", N=[None], defines="tplus",
           axioms=["log2-pow2"],
           requires=[("x", "x >= 1", "C01")],
           ensures=[("positive", "result > 0 and result == tplus(x)", "C05 C01"),
                    ("power-of-two", "result == rpow(2, real(ceil(ln(x) / ln(2))))", "C05"),
                    ("least", "result >= x and result < 2 * x", "C05")])
    # U = mean + nu rho^h + sqrt(c^2 ln(1/dt) / T) (= c sqrt(ln(1/dt)/T) for c >= 0); opaque outside the node method
    reg.opaque("hct_u", "mean:real, T:int, depth:int, nu:real, rho:real, c:real, dt:real",
               "mean + nu * rpow(rho, depth) + sqrt(c ** 2 * ln(1 / dt) / T)")
    pred("HCT_U", "n, nu, rho, c, dt", "n.u_value == xr(hct_u(n.mean_reward, n.visited_times, n.depth, nu, rho, c, dt))")
    fn("HCT_node.compute_u_value", N=N, props="C01 C05", reveal=["hct_u"],
       params={"nu": "real", "rho": "real", "c": "real", "delta_tilde": "real"},
       requires=[("evidence", "Evidence(self)", "C04 C05"),
                 ("ranges", "rho > 0 and delta_tilde > 0 and delta_tilde <= 1", "C01")],
       modifies=["self.u_value", "self.mean_reward"],
       ensures=[("unvisited", "implies(self.visited_times == 0, self.u_value == inf and self.mean_reward == old(self.mean_reward))", "C05"),
                ("formula", "implies(self.visited_times != 0, HCT_U(self, nu, rho, c, delta_tilde))", "C05"),
                ("evidence", "Evidence(self)", "C04")])

    # ---------------------------------------------------------------- updateBackwardTree (as T-HOO)
    BC = "all(Bcons(%s[h][k]) %s)" % (NL, ALLN)
    fn("HCT.updateBackwardTree", N=N, props="C01 C05", params={},
       requires=treewf("self.partition", props="C03"), modifies=["*HCT_node.b_value"],
       ensures=[("Bcons", BC, "C05")])
    DEEPER = ("deeper", "all(Bcons(%s[h][k]) for h in range(self.partition.depth + 2 - i, self.partition.depth + 1) "
                        "for k in range(len(%s[h])))" % (NL, NL))
    loop("HCT.updateBackwardTree", 0, props="C05", var="i", invariants=[DEEPER, ("nodes", "nodes is %s" % NL)])
    loop("HCT.updateBackwardTree", 1, props="C05",
         invariants=[DEEPER, ("prefix", "all(Bcons(layer[k]) for k in range(_k))"),
                     ("layer", "layer is %s[self.partition.depth + 1 - i] and nodes is %s and 1 <= i and i <= self.partition.depth + 1" % (NL, NL))])
    loop("HCT.updateBackwardTree", 2, props="C05",
         invariants=[("tempB", "tempB == lmaxb(children, _k)"), ("same", "children is node.children and children is not None")])

    # ---------------------------------------------------------------- updateUvalueTree: all cells refreshed with delta~(t+(iteration))
    DT = "(1 if self.c1 * self.delta / tplus(self.iteration) >= 1 else self.c1 * self.delta / tplus(self.iteration))"
    UALL = "all(implies(%s[h][k].visited_times != 0, HCT_U(%s[h][k], self.nu, self.rho, self.c, %s)) %%s)" % (NL, NL, DT)
    fn("HCT.updateUvalueTree", N=N, props="C01 C04 C05", params={},
       requires=INV,
       modifies=["*HCT_node.u_value", "*HCT_node.mean_reward"],
       ensures=[("formula", UALL % ALLN, "C05"),
                ("Inv.evidence", "AllNodes_Evidence(self.partition)", "C04"),
                ("Inv.uinf", "AllNodes_UInf(self.partition)", "C05")])
    loop("HCT.updateUvalueTree", 0, props="C05 C04",
         invariants=[("nl", "node_list is %s and delta_tilde == %s and delta_tilde > 0 and delta_tilde <= 1" % (NL, DT)),
                     ("done", UALL % ("for h in range(_k) for k in range(len(%s[h]))" % NL)),
                     ("evidence", "AllNodes_Evidence(self.partition)"), ("uinf", "AllNodes_UInf(self.partition)")])
    loop("HCT.updateUvalueTree", 1, props="C05 C04",
         invariants=[("nl", "node_list is %s and layer is %s[_k0] and 0 <= _k0 and _k0 <= self.partition.depth "
                            "and delta_tilde == %s and delta_tilde > 0 and delta_tilde <= 1" % (NL, NL, DT)),
                     ("done", UALL % ("for h in range(_k0) for k in range(len(%s[h]))" % NL)),
                     ("prefix", "all(implies(layer[k].visited_times != 0, HCT_U(layer[k], self.nu, self.rho, self.c, %s)) "
                                "for k in range(_k))" % DT),
                     ("evidence", "AllNodes_Evidence(self.partition)"), ("uinf", "AllNodes_UInf(self.partition)")])

    # ---------------------------------------------------------------- optTraverse: thresholds (C06) and greedy descent (C05)
    DTT = "(0.5 if self.c1 * self.delta / tplus(self.iteration) >= 0.5 else self.c1 * self.delta / tplus(self.iteration))"
    reg.opaque("htau", "c:real, rho:real, nu:real, q:int, dt:real", "real(ceil(c ** 2 * ln(1 / dt) * rpow(rho, -2 * q) / nu ** 2))")
    pred("HCT_tau", "A, q, dt", "htau(A.c, A.rho, A.nu, q, dt)")
    TAUS = ("defined(self.tau_h) and fresh(self.tau_h) and len(self.tau_h) == self.partition.depth + 1 and self.tau_h[0] == 0 "
            "and all(self.tau_h[q] == HCT_tau(self, q, %s) for q in range(1, self.partition.depth + 1))" % DTT)
    pred("HCT_Stops", "A, path",
         "all(path[k].children is not None and path[k].visited_times >= A.tau_h[k] for k in range(len(path) - 1)) "
         "and (path[len(path) - 1].children is None or path[len(path) - 1].visited_times < A.tau_h[len(path) - 1])")
    fn("HCT.optTraverse", N=N, props="C01 C04 C05 C06", params={}, returns="tuple[ref:$N,list[ref:$N]]", reveal=["htau"],
       requires=INV, modifies=["self.tau_h"],
       ensures=[("taus", TAUS, "C06"),
                ("path", "fresh(result[1]) and PathOK(self.partition, result[1])", "C05 C04"),
                ("end", "result[0] is result[1][len(result[1]) - 1] and result[1][0] is self.partition.root", "C05"),
                ("stops", "HCT_Stops(self, result[1])", "C04 C05 C06"),
                ("greedy", "Greedy(result[1])", "C05")])
    loop("HCT.optTraverse", 0, props="C06", var="i", modifies=["list(self.tau_h)"],
         invariants=[("taus", "defined(self.tau_h) and fresh(self.tau_h) and len(self.tau_h) == i and self.tau_h[0] == 0 "
                              "and all(self.tau_h[q] == HCT_tau(self, q, %s) for q in range(1, i))" % DTT),
                     ("dt", "delta_tilde == %s and delta_tilde > 0 and delta_tilde <= 0.5" % DTT)])
    loop("HCT.optTraverse", 1, props="C05", modifies=["list(path)"],
         decreases="self.partition.depth - curr_node.depth",
         invariants=[("taus", TAUS),
                     ("path", "fresh(path) and PathOK(self.partition, path) and path[len(path) - 1] is curr_node "
                              "and path[0] is self.partition.root"),
                     ("passed", "all(path[k].children is not None and path[k].visited_times >= self.tau_h[k] for k in range(len(path) - 1))", "C04 C05 C06"),
                     ("greedy", "Greedy(path)")])
    loop("HCT.optTraverse", 2, props="C05", modifies=[],
         invariants=[("kids", "children is curr_node.children and children is not None"),
                     ("max", "maxchild.parent is curr_node and maxchild.depth == curr_node.depth + 1 "
                             "and maxchild in self.partition.node_list[maxchild.depth] "
                             "and all(children[j].b_value <= maxchild.b_value for j in range(_k + 1))")])

    # ---------------------------------------------------------------- updateRewardTree: only the pulled cell (C04)
    ETG = ["path[len(path) - 1].visited_times", "path[len(path) - 1].mean_reward", "list(path[len(path) - 1].rewards)"]
    fn("HCT.updateRewardTree", N=N, props="C01 C04", params={"path": "list[ref:$N]", "reward": "real"},
       requires=INV + [("path", "PathOK(self.partition, path)", "C04")],
       modifies=ETG + ["self.iteration"],
       ensures=[("credited", "Credited(path[len(path) - 1], reward)", "C04"),
                ("Inv.evidence", "AllNodes_Evidence(self.partition)", "C04"),
                ("rounds", "self.iteration == old(self.iteration) + 1", "C04")])
    fn("HCT.expand", N=N, inline=True, params={"parent": "ref:$N"})
    fn("HCT.pull", N=N, props="C01 C04 C05 C15", params={"time": "int"}, returns="list[real]",
       requires=INV, modifies=["self.path", "self.curr_node", "self.tau_h"],
       ensures=INV + [("taus", TAUS, "C06"),
                      ("path", "defined(self.path) and defined(self.curr_node) and fresh(self.path) and PathOK(self.partition, self.path)", "C04 C05"),
                      ("end", "self.curr_node is self.path[len(self.path) - 1] and self.path[0] is self.partition.root", "C05"),
                      ("stops", "HCT_Stops(self, self.path)", "C05 C06"),
                      ("greedy", "Greedy(self.path)", "C05"),
                      ("result", "result is self.curr_node.c_point", "C01 C04")])

    # ---------------------------------------------------------------- updateAllTree / receive_reward (C03 C04 C05 C06)
    DT0 = ("(1 if self.c1 * self.delta / tplus(old(self.iteration)) >= 1 else self.c1 * self.delta / tplus(old(self.iteration)))")
    END = "path[len(path) - 1]"
    UPD_MOD = ETG + ["*HCT_node.u_value", "*HCT_node.b_value", "*HCT_node.mean_reward", "self.iteration",
                     END + ".children", "self.partition.depth", "list(self.partition.node_list)",
                     "list(self.partition.node_list[%s.depth + 1]) when %s.depth < self.partition.depth" % (END, END)]
    OLDN = "for h in range(old(self.partition.depth) + 1) for k in range(old(len(%s[h])))" % NL
    AFTER = [
        ("credited", "Credited(%s, reward)" % END, "C04"),
        ("others", "all(implies(%s[h][k] is not %s, Untouched(%s[h][k])) %s)" % (NL, END, NL, OLDN), "C04"),
        ("u-end", "HCT_U(%s, self.nu, self.rho, self.c, %s)" % (END, DT0), "C05"),
        ("u-refresh", "implies(real(old(self.iteration)) == tplus(old(self.iteration)), "
                      "all(implies(%s[h][k] is not %s and %s[h][k].visited_times != 0, "
                      "HCT_U(%s[h][k], self.nu, self.rho, self.c, %s)) %s))" % (NL, END, NL, NL, DT0, OLDN), "C05"),
        ("u-kept", "implies(real(old(self.iteration)) != tplus(old(self.iteration)), "
                   "all(implies(%s[h][k] is not %s, %s[h][k].u_value == old(%s[h][k].u_value)) %s))" % (NL, END, NL, NL, OLDN), "C05"),
        by_cases("Bcons", "Bcons(%s[h][k])" % NL, ALLN,
                 ["h <= old(self.partition.depth) and k < old(len(%s[h])) and %s[h][k] is old(%s[h][k]) and %s[h][k] is not %s" % (NL, NL, NL, NL, END),
                  "%s[h][k] is %s" % (NL, END),
                  "%s[h][k] in %s.children and %s.children is not old(%s.children)" % (NL, END, END, END)], props="C05"),
        ("rule", "iff(%s.children is not old(%s.children), old(%s.children) is None and %s.visited_times >= old(self.tau_h[%s.depth]))"
                 % (END, END, END, END, END), "C06"),
        ("kids-new", "implies(%s.children is not old(%s.children), all(fresh(%s.children[j]) and NodeInit(%s.children[j]) "
                     "for j in range(len(%s.children))))" % (END, END, END, END, END), "C06"),
        ("only-here", "all(implies(%s[h][k] is not %s, %s[h][k].children is old(%s[h][k].children)) %s)" % (NL, END, NL, NL, OLDN), "C06 C03"),
        ("layers-append-only", "all(%s[h][k] is old(%s[h][k]) %s)" % (NL, NL, OLDN), "C03 C04"),
    ]
    fn("HCT.updateAllTree", N=N, props="C01 C03 C04 C05 C06", params={"path": "list[ref:$N]", "reward": "real"},
       requires=INV + [("path", "PathOK(self.partition, path)", "C04 C03"),
                       ("taus", "defined(self.tau_h) and len(self.tau_h) == self.partition.depth + 1", "C01 C06"),
                       ("tau-own", "all(self.tau_h is not self.tau_h for q in range(0))", "C01")],
       modifies=UPD_MOD,
       ensures=INV + AFTER)

    def selfpath(cl):
        out = []
        for c in cl:
            if isinstance(c, tuple):
                out.append((c[0], c[1].replace("path[", "old(self.path)[").replace("len(path)", "old(len(self.path))"), c[2]))
            else:
                out.append((c.label, c.text.replace("path[", "old(self.path)[").replace("len(path)", "old(len(self.path))"), " ".join(sorted(c.props))))
        return out
    fn("HCT.receive_reward", N=N, props="C01 C03 C04 C05 C06 C15", params={"time": "int", "reward": "real"},
       requires=INV + [("pulled", "defined(self.path) and PathOK(self.partition, self.path)", "C04"),
                       ("taus", "defined(self.tau_h) and len(self.tau_h) == self.partition.depth + 1", "C01 C06")],
       modifies=[m.replace("path", "self.path") for m in UPD_MOD],
       ensures=INV + selfpath(AFTER))
    fn("HCT.get_last_point", N=N, props="C01 C04 C05 C15", params={}, returns="list[real]",
       requires=INV, modifies=["self.path", "self.curr_node", "self.tau_h"],
       ensures=INV + [("result", "defined(self.curr_node) and result is self.curr_node.c_point", "C01"),
                      # a recommendation query re-derives the pull path by the same rule (so it is harmless between rounds)
                      ("path", "defined(self.path) and fresh(self.path) and PathOK(self.partition, self.path)", "C04 C05 C15"),
                      ("end", "self.curr_node is self.path[len(self.path) - 1] and self.path[0] is self.partition.root", "C04 C05 C15"),
                      ("stops", "HCT_Stops(self, self.path)", "C04 C05 C15"),
                      ("greedy", "Greedy(self.path)", "C04 C05 C15")])
    fn("HCT.__init__", N=N, props="C01 C03 C06",
       params={"nu": "real", "rho": "real", "c": "real", "delta": "real", "domain": "list?[list[real]]", "partition": "cls?:Partition"},
       requires=[("ranges", "nu > 0 and 0 < rho and rho < 1 and 0 < delta and delta < 1", "C01"),
                 ("box", "implies(domain is not None, Box(domain))", "C01")],
       raises={"ValueError": "domain is None or partition is None"},
       ensures=INV + [("root-split", "self.partition.depth == 1 and self.partition.root.children is not None", "C06"),
                      ("own", "fresh(self.partition) and self.partition.domain is domain", "C14")])
