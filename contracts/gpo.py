"""GPO / PCT / VPCT (C09, C04, C07, C01): N phases, each with its own base learner driven for `half` rounds followed by
`half` validation rounds of the learner's last point; the best validated point is returned afterwards."""


def register(reg):
    loop, pred = reg.loop, reg.pred
    G = reg.ghost_fields
    G["g_phase"] = "int"        # the phase a learner was created for
    G["g_last"] = "ref?:Learner"
    G["g_vsum"] = "real"        # sum of the validation rewards of the current phase

    def fn(q, **kw):
        kw.setdefault("nla", "uf")
        kw.setdefault("axioms", ["i2r-exact", "rpow-shrink"])
        return reg.fn(q, **kw)
    H = "self.half_phase_length"
    LEN = "len(self.V_x)"
    # is the validated point of the current phase already recorded?
    REC = "(1 if self.phase <= self.N and (self.counter > %s or (self.counter == %s and g_await(self) == 1)) else 0)" % (H, H)
    LIVE = "(self.phase <= self.N and (self.counter > 0 or g_await(self) == 1))"
    INV = [
        ("sizes", "self.N >= 1 and %s >= 1 and self.N == real(ceil(self.N)) and %s == real(floor(%s))" % (H, H, H), "C09 C01"),
        ("ranges", "self.rhomax > 0 and self.rhomax < 1 and self.numax > 0", "C09 C01"),
        ("learner-class", "self.algo.__name__ == 'T_HOO' or self.algo.__name__ == 'HCT' or self.algo.__name__ == 'VHCT'", "C09 C01"),
        ("phase", "self.phase >= 1 and self.phase <= self.N + 1 and self.counter >= 0 and (self.counter < 2 * %s or self.phase > self.N)" % H, "C09 C01"),
        ("await", "g_await(self) == 0 or g_await(self) == 1", "C09"),
        ("recorded", "len(self.V_reward) == %s and %s == self.phase - 1 + %s" % (LEN, LEN, REC), "C09 C01"),
        ("learner", "implies(%s, self.curr_algo is not None and g_phase(self.curr_algo) == self.phase "
                    "and g_nu(self.curr_algo) == self.numax and 0 < g_rho(self.curr_algo) and g_rho(self.curr_algo) < 1 "
                    "and g_nrecv(self.curr_algo) == (self.counter if self.counter < %s else floor(%s)) "
                    "and g_npull(self.curr_algo) == g_nrecv(self.curr_algo) + (1 if g_await(self) == 1 and self.counter < %s else 0))"
                    % (LIVE, H, H, H), "C09 C04"),
        ("point", "implies(%s and (self.counter > 0 or g_await(self) == 1), self.goodx is not None)" % "self.phase <= self.N", "C09 C01"),
        ("validated", "implies(%s == 1, self.V_x[self.phase - 1] is self.goodx and "
                      "(self.V_reward[self.phase - 1] == 0 and g_vsum(self) == 0 if self.counter == %s else "
                      "self.V_reward[self.phase - 1] == g_vsum(self) / (self.counter - %s)))" % (REC, H, H), "C09 C04"),
        ("finished", "implies(self.phase > self.N, %s >= 1 and self.goodx is self.V_x[argmax_first(self.V_reward)])" % LEN, "C09 C07"),
    ]
    fn("GPO.__init__", props="C01 C09 C14", N=[None], ghost_after=["g_await(self) := 0", "g_vsum(self) := 0"],
       params={"numax": "real", "rhomax": "real", "rounds": "int", "domain": "list?[list[real]]", "partition": "cls?:Partition",
               "algo": "cls?:Learner"},
       requires=[("ranges", "numax > 0 and 0 < rhomax and rhomax < 1 and rounds >= 100", "C01")],
       raises={"ValueError": "domain is None or partition is None or algo is None",
               "NotImplementedError": "domain is not None and partition is not None and algo is not None and not "
                                      "(algo.__name__ == 'T_HOO' or algo.__name__ == 'HCT' or algo.__name__ == 'VHCT')"},
       ensures=[("schedule", "self.N == real(ceil(0.5 * self.Dmax * ln(rounds / 2 / ln(rounds / 2)))) "
                             "and %s == real(floor(rounds / (2 * self.N))) and self.phase == 1 and self.counter == 0 "
                             "and len(self.V_x) == 0 and len(self.V_reward) == 0 and g_await(self) == 0 and self.algo is algo" % H, "C09"),
                # the documented ranges must give at least one learner and at least one round per half phase
                ("N>=1", "self.N >= 1", "C01"),
                ("half>=1", "%s >= 1" % H, "C01")] +
               [(c[0], "implies(self.N >= 1 and %s >= 1, %s)" % (H, c[1]), c[2]) for c in INV])
    fn("GPO.pull", props="C01 C04 C09 C15", N=[None], params={"time": "int"}, returns="list?[real]",
       requires=INV + [("domain", "self.domain is not None", "C01"), ("typestate", "g_await(self) == 0", "C09")],
       modifies=["self.curr_algo", "self.goodx", "list(self.V_x)", "list(self.V_reward)",
                 "ghost g_npull(self.curr_algo) when self.curr_algo is not None"],
       ghost_after=["g_await(self) := 1",
                    "g_phase(self.curr_algo) := (self.phase if old(self.counter) == 0 and old(self.phase) <= self.N else g_phase(self.curr_algo))",
                    "g_vsum(self) := (0 if old(self.counter) == %s else g_vsum(self))" % H],
       ensures=INV + [
           ("new-learner", "implies(old(self.phase) <= self.N and old(self.counter) == 0, fresh(self.curr_algo) and "
                           "g_rho(self.curr_algo) == rpow(self.rhomax, 2 * self.N / (2 * self.phase + 1)) and g_nu(self.curr_algo) == self.numax)", "C09"),
           ("same-learner", "implies(old(self.phase) <= self.N and old(self.counter) != 0, self.curr_algo is old(self.curr_algo))", "C09"),
           ("asks-learner", "implies(old(self.phase) <= self.N and old(self.counter) < %s, result is self.goodx)" % H, "C09 C04"),
           ("validates", "implies(old(self.phase) <= self.N and old(self.counter) >= %s, result is self.goodx and self.goodx is old(self.goodx) "
                         "and g_npull(self.curr_algo) == old(g_npull(self.curr_algo)))" % H, "C09 C04"),
           ("after", "implies(old(self.phase) > self.N, result is self.goodx and self.goodx is self.V_x[argmax_first(self.V_reward)])", "C09 C07"),
           ("kept", "%s >= old(%s) and all(self.V_x[i] is old(self.V_x[i]) and self.V_reward[i] == old(self.V_reward[i]) for i in range(old(%s)))" % (LEN, LEN, LEN), "C09"),
           ("awaiting", "g_await(self) == 1", "C09")])
    fn("GPO.receive_reward", props="C01 C04 C09 C15", N=[None], params={"time": "int", "reward": "real"},
       requires=INV + [("typestate", "g_await(self) == 1", "C09")],
       modifies=["list(self.V_reward)", "self.counter", "self.phase", "self.goodx",
                 "ghost g_nrecv(self.curr_algo) when self.curr_algo is not None", "ghost g_sum(self.curr_algo) when self.curr_algo is not None"],
       ghost_after=["g_await(self) := 0",
                    "g_vsum(self) := (g_vsum(self) + reward if old(self.phase) <= self.N and old(self.counter) >= %s else g_vsum(self))" % H],
       ensures=INV + [
           ("to-learner", "implies(old(self.phase) <= self.N and old(self.counter) < %s, "
                          "g_nrecv(old(self.curr_algo)) == old(g_nrecv(self.curr_algo)) + 1 and "
                          "all(self.V_reward[i] == old(self.V_reward[i]) for i in range(%s)))" % (H, LEN), "C09 C04"),
           ("to-score", "implies(old(self.phase) <= self.N and old(self.counter) >= %s, "
                        "g_nrecv(old(self.curr_algo)) == old(g_nrecv(self.curr_algo)) and "
                        "all(implies(i != old(self.phase) - 1, self.V_reward[i] == old(self.V_reward[i])) for i in range(%s)))" % (H, LEN), "C09 C04"),
           ("dropped-after", "implies(old(self.phase) > self.N, all(self.V_reward[i] == old(self.V_reward[i]) for i in range(%s)) "
                             "and self.goodx is old(self.goodx))" % LEN, "C09"),
           ("points-kept", "%s == old(%s) and all(self.V_x[i] is old(self.V_x[i]) for i in range(%s))" % (LEN, LEN, LEN), "C09"),
           ("served", "g_await(self) == 0", "C09")])
    fn("GPO.get_last_point", props="C01 C07 C09", N=[None], params={}, returns="list[real]",
       requires=INV + [("some", "%s >= 1" % LEN, "C01 C07")], modifies=[],
       ensures=[("best", "result is self.V_x[argmax_first(self.V_reward)] and "
                         "all(self.V_reward[i] <= self.V_reward[argmax_first(self.V_reward)] for i in range(%s))" % LEN, "C07 C09")])

    # ---------------------------------------------------------------- PCT / VPCT: pure delegation to a GPO over HCT resp. VHCT
    def on(obj, cl):
        return [(c[0], c[1].replace("self.", obj + ".").replace("(self)", "(" + obj + ")"), c[2]) for c in cl]
    A = "self.algorithm"
    for W, base in (("PCT", "HCT"), ("VPCT", "VHCT")):
        fn(W + ".__init__", props="C01 C09 C14", N=[None],
           params={"numax": "real", "rhomax": "real", "rounds": "int", "domain": "list?[list[real]]", "partition": "cls?:Partition"},
           requires=[("ranges", "numax > 0 and 0 < rhomax and rhomax < 1 and rounds >= 100", "C01")],
           raises={"ValueError": "domain is None or partition is None"},
           ensures=[("wraps", "fresh(%s) and %s.algo.__name__ == '%s' and %s.phase == 1 and %s.counter == 0 and g_await(%s) == 0" % (A, A, base, A, A, A), "C09")]
           + [(c[0], "implies(%s.N >= 1 and %s.half_phase_length >= 1, %s)" % (A, A, c[1]), c[2]) for c in on(A, INV)])
        fn(W + ".pull", props="C01 C09 C15", N=[None], params={"time": "int"}, returns="list?[real]",
           requires=on(A, INV) + [("domain", "%s.domain is not None" % A, "C01"), ("typestate", "g_await(%s) == 0" % A, "C09")],
           modifies=["%s.curr_algo" % A, "%s.goodx" % A, "list(%s.V_x)" % A, "list(%s.V_reward)" % A,
                     "ghost g_npull(%s.curr_algo) when %s.curr_algo is not None" % (A, A), "ghost g_await(%s)" % A,
                     "ghost g_phase(%s.curr_algo)" % A, "ghost g_vsum(%s)" % A],
           ensures=on(A, INV) + [("delegates", "result is %s.goodx and g_await(%s) == 1" % (A, A), "C09")])
        fn(W + ".receive_reward", props="C01 C09 C15", N=[None], params={"time": "int", "reward": "real"},
           requires=on(A, INV) + [("typestate", "g_await(%s) == 1" % A, "C09")],
           modifies=["list(%s.V_reward)" % A, "%s.counter" % A, "%s.phase" % A, "%s.goodx" % A, "ghost g_await(%s)" % A, "ghost g_vsum(%s)" % A,
                     "ghost g_nrecv(%s.curr_algo) when %s.curr_algo is not None" % (A, A),
                     "ghost g_sum(%s.curr_algo) when %s.curr_algo is not None" % (A, A)],
           ensures=on(A, INV) + [("delegates", "g_await(%s) == 0" % A, "C09")])
        fn(W + ".get_last_point", props="C01 C07 C09", N=[None], params={}, returns="list[real]",
           requires=on(A, INV) + [("some", "len(%s.V_x) >= 1" % A, "C01 C07")], modifies=[],
           ensures=[("best", "result is %s.V_x[argmax_first(%s.V_reward)]" % (A, A), "C07 C09")])
