"""Contracts for PyXAB/synthetic_obj (C17): f(x) is finite, <= fmax on the documented domain, fmax attained at the
documented maximiser, f is pure (empty frame, no RNG call), wrong dimension -> ValueError."""


def register(reg):
    loop, pred = reg.loop, reg.pred

    def fn(q, **kw):
        kw.setdefault("axioms", ["sqrt-arith", "rpow-arith"])
        return reg.fn(q, **kw)
    P = "C17"
    X = {"x": "list[real]"}

    def dim(d):
        return {"ValueError": "len(x) != %d" % d}

    # ---------------------------------------------------------------- Garland
    fn("Garland.__init__", props=P, params={}, ensures=[("fmax", "self.fmax == 1")])
    fn("Garland.f", props=P, params=X, returns="real", rng=False, raises=dim(1),
       requires=[("inv", "self.fmax == 1"), ("domain", "implies(len(x) == 1, 0 <= x[0] and x[0] <= 1)")],
       ensures=[("bound", "result <= self.fmax"),
                ("near-max", "implies(x[0] == pi / 6, result > 0.997)"),
                ("overshoot", "result >= 0")])
    fn("Perturbed_Garland.__init__", props=P, params={}, ensures=[("fmax", "self.fmax == 1 + self.perturb")])
    fn("Perturbed_Garland.f", props=P, params=X, returns="real", rng=False, raises=dim(1),
       requires=[("inv", "self.fmax == 1 + self.perturb"), ("domain", "implies(len(x) == 1, 0 <= x[0] and x[0] <= 1)")],
       ensures=[("bound", "result <= self.fmax"),
                ("near-max", "implies(x[0] == pi / 6, result > 0.997 + self.perturb)")])

    # ---------------------------------------------------------------- DoubleSine
    DSINV = "self.fmax == 0 and self.ep1 >= 0 and self.ep2 >= 0 and 0 <= self.tmax and self.tmax <= 1"
    DSP = {"rho1": "real", "rho2": "real", "tmax": "real"}
    RAISE_DS = {"ValueError": "rho1 <= 0 or rho1 > 1 or rho2 <= 0 or rho2 > 1 or tmax < 0 or tmax > 1"}
    fn("DoubleSine.__init__", props=P, params=DSP, raises=RAISE_DS, ensures=[("inv", DSINV)])
    fn("DoubleSine.f", props=P, params=X, returns="real", rng=False, raises=dim(1),
       requires=[("inv", DSINV), ("domain", "implies(len(x) == 1, 0 <= x[0] and x[0] <= 1)")],
       ensures=[("bound", "result <= self.fmax"), ("attained", "implies(x[0] == self.tmax, result == self.fmax)")])
    PDSINV = "self.fmax == 0 + self.perturb and self.ep1 >= 0 and self.ep2 >= 0 and 0 <= self.tmax and self.tmax <= 1"
    fn("Perturbed_DoubleSine.__init__", props=P, params=DSP, raises=RAISE_DS, ensures=[("inv", PDSINV)])
    fn("Perturbed_DoubleSine.f", props=P, params=X, returns="real", rng=False, raises=dim(1),
       requires=[("inv", PDSINV), ("domain", "implies(len(x) == 1, 0 <= x[0] and x[0] <= 1)")],
       ensures=[("bound", "result <= self.fmax"), ("attained", "implies(x[0] == self.tmax, result == self.fmax)")])
    fn("mysin2", props=P, params={"x": "real"}, returns="real", rng=False,
       ensures=[("range", "0 <= result and result <= 1")])
    fn("threshold", props=P, params={"x": "real"}, returns="real", rng=False,
       ensures=[("range", "result == 0 or result == 1")])

    # ---------------------------------------------------------------- DifficultFunc
    fn("DifficultFunc.__init__", props=P, params={}, ensures=[("fmax", "self.fmax == 0")])
    fn("DifficultFunc.f", props=P, params=X, returns="real", rng=False, raises=dim(1),
       requires=[("inv", "self.fmax == 0"), ("domain", "implies(len(x) == 1, 0 <= x[0] and x[0] <= 1)")],
       ensures=[("bound", "result <= self.fmax"), ("attained", "implies(x[0] == 0.5, result == self.fmax)")])

    # ---------------------------------------------------------------- Ackley
    BOX2 = "implies(len(x) == 2, -1 <= x[0] and x[0] <= 1 and -1 <= x[1] and x[1] <= 1)"
    for c in ("Ackley", "Ackley_Normalized"):
        fn(c + ".__init__", props=P, params={}, ensures=[("fmax", "self.fmax == 0")])
        fn(c + ".f", props=P, params=X, returns="real", rng=False, raises=dim(2),
           requires=[("inv", "self.fmax == 0"), ("domain", BOX2)],
           ensures=[("bound", "result <= self.fmax"),
                    ("attained", "implies(x[0] == 0 and x[1] == 0, result == self.fmax)")])

    # ---------------------------------------------------------------- Himmelblau
    BOX5 = "implies(len(x) == 2, -5 <= x[0] and x[0] <= 5 and -5 <= x[1] and x[1] <= 5)"
    for c in ("Himmelblau", "Himmelblau_Normalized"):
        fn(c + ".__init__", props=P, params={}, ensures=[("fmax", "self.fmax == 0")])
        fn(c + ".f", props=P, params=X, returns="real", rng=False, raises=dim(2),
           requires=[("inv", "self.fmax == 0"), ("domain", BOX5)],
           ensures=[("bound", "result <= self.fmax"),
                    ("attained", "implies(x[0] == 3 and x[1] == 2, result == self.fmax)")])

    # ---------------------------------------------------------------- Rastrigin
    RDOM = "all(-1 <= x[j] and x[j] <= 1 for j in range(len(x)))"
    fn("Rastrigin.__init__", props=P, params={}, ensures=[("fmax", "self.fmax == 0")])
    fn("Rastrigin.f", props=P, params=X, returns="real", rng=False, locals={"S": "real"},
       requires=[("inv", "self.fmax == 0"), ("domain", RDOM)],
       ensures=[("bound", "result <= self.fmax"),
                ("attained", "implies(all(x[j] == 0 for j in range(len(x))), result == self.fmax)")])
    loop("Rastrigin.f", 0, props=P, var="i",
         invariants=[("bound", "S <= 0"), ("attained", "implies(all(x[j] == 0 for j in range(len(x))), S == 0)")])
    fn("Rastrigin_Normalized.__init__", props=P, params={"k": "real"}, requires=[("k", "k > 0")],
       ensures=[("fmax", "self.fmax == 0 and self.k > 0")])
    fn("Rastrigin_Normalized.f", props=P, params=X, returns="real", rng=False, locals={"S": "real"},
       requires=[("inv", "self.fmax == 0 and self.k > 0"), ("domain", RDOM), ("dim", "len(x) >= 1")],
       ensures=[("bound", "result <= self.fmax"),
                ("attained", "implies(all(x[j] == 0 for j in range(len(x))), result == self.fmax)")])
    loop("Rastrigin_Normalized.f", 0, props=P, var="i",
         invariants=[("bound", "S <= 0"), ("attained", "implies(all(x[j] == 0 for j in range(len(x))), S == 0)")])

    # ---------------------------------------------------------------- Cexample
    fn("Cexample.__init__", props=P, params={}, ensures=[("fmax", "self.fmax == 1")])
    fn("Cexample.f", props=P, params=X, returns="real", rng=False, raises=dim(1),
       requires=[("inv", "self.fmax == 1"), ("domain", "implies(len(x) == 1, 0 <= x[0] and x[0] <= 1 / e)")],
       ensures=[("bound", "result <= self.fmax"), ("attained", "implies(x[0] == 0, result == self.fmax)")])
