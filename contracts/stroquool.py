"""StroquOOL: constructor only (C01) -- the depth cap h_max = floor(n / (2 (H_n + 1)^2)) must be at least 1 for the constructor's
log2(h_max) to be defined; pull/receive_reward are not under contract (get_last_point is, see recommend.py)."""
from contracts.partition import treewf


def register(reg):
    loop = reg.loop

    def fn(q, **kw):
        kw.setdefault("nla", "uf")
        kw.setdefault("axioms", ["i2r-exact"])
        return reg.fn(q, **kw)
    fn("StroquOOL.harmonic_series_sum", N=[None], props="C01", params={"n": "int"}, returns="real", reveal=["hsum"],
       requires=[("n", "n >= 0", "C01")], modifies=[],
       ensures=[("harmonic", "result == hsum(n)", "C01"), ("at-least-one", "implies(n >= 1, result >= 1)", "C01")])
    loop("StroquOOL.harmonic_series_sum", 0, props="C01",
         invariants=[("partial", "res == hsum(_k) and implies(_k >= 1, res >= 1) and res >= 0", "C01")])
    fn("StroquOOL.__init__", N=["StroquOOL_node"], props="C01 C03",
       params={"n": "int", "domain": "list?[list[real]]", "partition": "cls?:Partition"},
       requires=[("ranges", "n >= 1", "C01"), ("box", "implies(domain is not None, Box(domain))", "C01")],
       raises={"ValueError": "domain is None or partition is None"},
       ensures=treewf("self.partition", props="C03 C01") + [
           ("h_max", "self.h_max >= 1", "C01")])
