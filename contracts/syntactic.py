"""Solver-free obligations (decided on the AST of the current /repo source): shared mutable state, effect whitelist."""
import ast


class Check:
    def __init__(self, props, fn):
        self.props, self.fn = set(props.split()), fn

    def __call__(self, ct, reg, prop):
        return self.fn(ct, reg, prop)


def class_state(ct, subs):
    out = []
    for name, ci in sorted(ct.classes.items()):
        if not any(("/" + s + "/") in ("/" + ci.file) for s in subs):
            continue
        bad = []
        for st in ci.node.body:
            if isinstance(st, (ast.FunctionDef, ast.Pass)):
                continue
            if isinstance(st, ast.Expr) and isinstance(st.value, ast.Constant) and isinstance(st.value.value, str):
                continue
            bad.append("line %d: %s" % (st.lineno, type(st).__name__))
        for fd in ci.methods.values():
            for n in ast.walk(fd):
                if isinstance(n, (ast.Global, ast.Nonlocal)):
                    bad.append("line %d: %s" % (n.lineno, type(n).__name__))
            for d in fd.args.defaults + fd.args.kw_defaults:
                if d is not None and isinstance(d, (ast.List, ast.Dict, ast.Set, ast.Call)):
                    bad.append("line %d: mutable default argument" % d.lineno)
        out.append({"id": "syn:no-class-level-state:%s" % name, "ok": not bad,
                    "detail": "class body of %s (%s) holds state shared by all instances: %s" % (name, ci.file, "; ".join(bad)) if bad else ""})
    return out


def module_state(ct, subs):
    out = []
    for rel, mod in sorted(ct.modules.items()):
        if not any(("/" + s + "/") in ("/" + rel) for s in subs):
            continue
        bad = []
        for st in mod.body:
            if isinstance(st, (ast.FunctionDef, ast.ClassDef, ast.Import, ast.ImportFrom)):
                continue
            if isinstance(st, ast.Expr) and isinstance(st.value, ast.Constant):
                continue
            bad.append("line %d: %s" % (st.lineno, type(st).__name__))
        out.append({"id": "syn:no-module-level-state:%s" % rel, "ok": not bad,
                    "detail": "module %s has module-level statements other than imports/defs: %s" % (rel, "; ".join(bad)) if bad else ""})
    return out


def register(reg):
    reg.syntactic["objective-purity"] = Check("C17", lambda ct, reg, prop: class_state(ct, ["synthetic_obj"]) + module_state(ct, ["synthetic_obj"]))
    reg.syntactic["no-shared-state"] = Check("C14", lambda ct, reg, prop: class_state(ct, ["algos", "partition"]) + module_state(ct, ["algos", "partition"]))


# ====================================================================== C14: effect whitelist
ALLOWED_MODULES = {"np", "numpy", "math", "copy", "pdb", "abc", "random"}   # `random` is imported by SequOOL but must not be *used*
FORBIDDEN_NAMES = {"time", "datetime", "os", "id", "hash", "set", "frozenset", "globals", "locals", "open", "input", "eval", "exec",
                   "getattr", "setattr", "vars", "__import__"}
NP_RANDOM_OK = {"randint", "uniform", "choice", "normal"}


def effects(ct, subs):
    out = []
    for rel, mod in sorted(ct.modules.items()):
        if not any(("/" + s + "/") in ("/" + rel) for s in subs):
            continue
        bad = []
        for n in ast.walk(mod):
            if isinstance(n, ast.Import):
                for a in n.names:
                    if a.name.split(".")[0] not in ALLOWED_MODULES | {"PyXAB"}:
                        bad.append("line %d: import %s" % (n.lineno, a.name))
            if isinstance(n, ast.ImportFrom):
                if (n.module or "").split(".")[0] not in ALLOWED_MODULES | {"PyXAB"}:
                    bad.append("line %d: from %s import" % (n.lineno, n.module))
            if isinstance(n, ast.Name) and isinstance(n.ctx, ast.Load) and n.id in FORBIDDEN_NAMES:
                # a parameter called `time` is fine; a *call* time(...) / time.time() is not
                pass
            if isinstance(n, ast.Call):
                f = n.func
                if isinstance(f, ast.Name) and f.id in FORBIDDEN_NAMES:
                    bad.append("line %d: call of %s()" % (n.lineno, f.id))
                if isinstance(f, ast.Attribute):
                    base = f.value
                    if isinstance(base, ast.Name) and base.id in ("random", "time", "os", "datetime"):
                        bad.append("line %d: %s.%s()" % (n.lineno, base.id, f.attr))
                    if isinstance(base, ast.Attribute) and base.attr == "random" and isinstance(base.value, ast.Name) \
                            and base.value.id in ("np", "numpy") and f.attr not in NP_RANDOM_OK:
                        bad.append("line %d: np.random.%s (not in the list of contracted generators)" % (n.lineno, f.attr))
            if isinstance(n, (ast.Set, ast.SetComp)):
                bad.append("line %d: set literal (iteration order depends on hashing)" % n.lineno)
        out.append({"id": "syn:effect-whitelist:%s" % rel, "ok": not bad,
                    "detail": "sources of nondeterminism / outside effects other than numpy's global generator: " + "; ".join(bad) if bad else ""})
    return out


# ====================================================================== C15: the time argument is only a label
TIME_ALGOS = ["T_HOO", "HCT", "VHCT", "Zooming", "POO", "GPO", "PCT", "VPCT", "DOO", "SOO", "SequOOL", "VROOM"]
LABEL_FIELD = {"DOO", "SOO", "SequOOL", "VROOM"}      # these store the label in self.iteration and never read it


def time_label(ct):
    out = []
    for cname in TIME_ALGOS:
        ci = ct.classes.get(cname)
        if ci is None:
            out.append({"id": "syn:time-is-label:%s" % cname, "ok": False, "detail": "class %s not found" % cname})
            continue
        bad = []
        for mname in ("pull", "receive_reward"):
            fd = ci.methods.get(mname)
            if fd is None:
                continue
            tname = fd.args.args[1].arg
            parents = {}
            for n in ast.walk(fd):
                for ch in ast.iter_child_nodes(n):
                    parents[id(ch)] = n
            for n in ast.walk(fd):
                if isinstance(n, ast.Name) and n.id == tname and isinstance(n.ctx, ast.Load):
                    p = parents.get(id(n))
                    ok = False
                    if isinstance(p, ast.Assign) and p.value is n and len(p.targets) == 1 and isinstance(p.targets[0], ast.Attribute) \
                            and p.targets[0].attr == "iteration" and cname in LABEL_FIELD:
                        ok = True
                    if isinstance(p, ast.Call) and isinstance(p.func, ast.Attribute) and p.func.attr in ("pull", "receive_reward") and n in p.args:
                        ok = True
                    if isinstance(p, ast.keyword) and p.arg == "time":
                        ok = True
                    if not ok:
                        bad.append("%s line %d: the time argument is used in %s" % (mname, n.lineno, type(p).__name__))
            if isinstance(fd, ast.FunctionDef):
                for n in ast.walk(fd):
                    if isinstance(n, ast.Assign) and any(isinstance(t, ast.Name) and t.id == tname for t in n.targets):
                        bad.append("%s line %d: the time parameter is reassigned" % (mname, n.lineno))
        if cname in LABEL_FIELD:
            for mname, fd in ci.methods.items():
                for n in ast.walk(fd):
                    if isinstance(n, ast.Attribute) and n.attr == "iteration" and isinstance(n.ctx, ast.Load) \
                            and isinstance(n.value, ast.Name) and n.value.id == "self":
                        bad.append("%s line %d: self.iteration (which holds the caller's time label) is read" % (mname, n.lineno))
        else:
            # an internal counter must not be fed from the label
            for mname, fd in ci.methods.items():
                for n in ast.walk(fd):
                    if isinstance(n, ast.Assign) and isinstance(n.value, ast.Name) and mname in ("pull", "receive_reward") \
                            and n.value.id == fd.args.args[1].arg:
                        bad.append("%s line %d: a field is set from the time label" % (mname, n.lineno))
        out.append({"id": "syn:time-is-label:%s" % cname, "ok": not bad, "detail": "; ".join(bad)})
    return out


def scratch_only(reg):
    """get_last_point of the tree bandits may only write scratch fields, and nothing pull/receive_reward requires mentions them"""
    out = []
    SCR = {"T_HOO": {"self.path"}, "HCT": {"self.path", "self.curr_node", "self.tau_h"},
           "VHCT": {"self.path", "self.curr_node", "*VHCT_node.tau"}}
    for a, allowed in SCR.items():
        c = reg.contracts.get(a + ".get_last_point")
        bad = []
        if c is None:
            bad.append("no contract")
        else:
            extra = set(c.modifies) - allowed
            if extra:
                bad.append("get_last_point may modify %s" % sorted(extra))
            p = reg.contracts.get(a + ".pull")
            for cl in (p.requires if p else []):
                for w in ("self.path", "curr_node", "tau_h", ".tau "):
                    if w in cl.text:
                        bad.append("pull requires a fact about the scratch field %s (%s)" % (w, cl.label))
        out.append({"id": "syn:recommendation-query-writes-scratch-only:%s" % a, "ok": not bad, "detail": "; ".join(bad)})
    return out


# ====================================================================== C16: decisions never look at coordinates
COORD_ATTRS = {"domain", "c_point", "p"}
COORD_CALLS = {"get_domain", "get_cpoint", "get_point", "sample_uniform"}
# documented / relational exceptions: (class, method)
# (an order comparison of a coordinate with a coordinate, e.g. Zooming's containment test, is invariant under x -> s*x+t, s>0,
#  and is allowed everywhere; len() of a coordinate list is the dimension)
COORD_EXEMPT = {("DOO", "delta_init"): "default diameter function: documented exception (translation invariant only)",
                ("VROOM_node", "sample_uniform"): "uniform draw inside the cell (affine by the assumed contract of np.random.uniform)",
                ("P_node", "__init__"): "centre point (affine in the bounds)"}


def coord_free(ct):
    out = []
    for cname, ci in sorted(ct.classes.items()):
        if "/algos/" not in "/" + ci.file:
            continue
        for mname, fd in sorted(ci.methods.items()):
            if (cname, mname) in COORD_EXEMPT:
                continue
            tainted = set()
            a0 = [x.arg for x in fd.args.args]
            if "domain" in a0:
                tainted.add("domain")

            def is_coord(e):
                if isinstance(e, ast.Attribute) and e.attr in COORD_ATTRS:
                    return True
                if isinstance(e, ast.Call) and isinstance(e.func, ast.Attribute) and e.func.attr in COORD_CALLS:
                    return True
                if isinstance(e, ast.Name) and e.id in tainted:
                    return True
                if isinstance(e, ast.Subscript):
                    return is_coord(e.value)
                return False
            bad = []
            changed = True
            while changed:
                changed = False
                for n in ast.walk(fd):
                    if isinstance(n, ast.Assign) and is_coord(n.value):
                        for t in n.targets:
                            for t1 in (t.elts if isinstance(t, (ast.Tuple, ast.List)) else [t]):
                                if isinstance(t1, ast.Name) and t1.id not in tainted:
                                    tainted.add(t1.id)
                                    changed = True
                    if isinstance(n, ast.For) and is_coord(n.iter) and isinstance(n.target, ast.Name) and n.target.id not in tainted:
                        tainted.add(n.target.id)
                        changed = True
            for n in ast.walk(fd):
                subs = []
                if isinstance(n, ast.Compare):
                    subs = [n.left] + n.comparators
                    # `x is None` / `domain is None` tests presence, not a coordinate
                    if all(isinstance(o, (ast.Is, ast.IsNot)) for o in n.ops):
                        subs = []
                    # coordinate against coordinate: relational, equivariant
                    elif all(is_coord(x) for x in subs) and all(isinstance(o, (ast.Lt, ast.LtE, ast.Gt, ast.GtE, ast.Eq, ast.NotEq)) for o in n.ops):
                        subs = []
                elif isinstance(n, ast.BinOp):
                    subs = [n.left, n.right]
                elif isinstance(n, ast.UnaryOp):
                    subs = [n.operand]
                elif isinstance(n, (ast.If, ast.While, ast.IfExp)):
                    subs = [n.test]
                elif isinstance(n, ast.Call) and isinstance(n.func, ast.Name) and n.func.id in ("min", "max", "abs", "float", "int", "sorted", "round"):
                    subs = list(n.args)
                elif isinstance(n, ast.Call) and isinstance(n.func, ast.Attribute) and isinstance(n.func.value, ast.Name) \
                        and n.func.value.id in ("np", "numpy", "math"):
                    subs = list(n.args) + [k.value for k in n.keywords]      # np.isclose(x, lo), math.floor(x) ...
                for s in subs:
                    if is_coord(s):
                        bad.append("line %d: a coordinate value (%s) enters %s" % (s.lineno, ast.unparse(s)[:40], type(n).__name__))
            out.append({"id": "syn:coordinate-free-decisions:%s.%s" % (cname, mname), "ok": not bad, "detail": "; ".join(bad[:4])})
    for (c, m), why in sorted(COORD_EXEMPT.items()):
        out.append({"id": "syn:coordinate-use-exempt:%s.%s" % (c, m), "ok": True, "detail": why})
    return out


def register2(reg):
    reg.syntactic["effect-whitelist"] = Check("C14", lambda ct, reg, prop: effects(ct, ["algos", "partition"]))
    reg.syntactic["time-is-label"] = Check("C15", lambda ct, reg, prop: time_label(ct) + scratch_only(reg))
    reg.syntactic["coordinate-free"] = Check("C16", lambda ct, reg, prop: coord_free(ct))


_old_register = register


def register(reg):
    _old_register(reg)
    register2(reg)
