"""Solver-free obligations (decided on the AST of the current /repo source): shared mutable state, effect whitelist."""
import ast


class Check:
    def __init__(self, props, fn):
        self.props, self.fn = set(props.split()), fn

    def __call__(self, ct, reg, prop):
        return self.fn(ct, reg, prop)


def class_state(ct, subs):
    out = []
    for name, ci in sorted(ct.classes.items()):
        if not any(("/" + s + "/") in ("/" + ci.file) for s in subs):
            continue
        bad = []
        for st in ci.node.body:
            if isinstance(st, (ast.FunctionDef, ast.Pass)):
                continue
            if isinstance(st, ast.Expr) and isinstance(st.value, ast.Constant) and isinstance(st.value.value, str):
                continue
            bad.append("line %d: %s" % (st.lineno, type(st).__name__))
        for fd in ci.methods.values():
            for n in ast.walk(fd):
                if isinstance(n, (ast.Global, ast.Nonlocal)):
                    bad.append("line %d: %s" % (n.lineno, type(n).__name__))
            for d in fd.args.defaults + fd.args.kw_defaults:
                if d is not None and isinstance(d, (ast.List, ast.Dict, ast.Set, ast.Call)):
                    bad.append("line %d: mutable default argument" % d.lineno)
        out.append({"id": "syn:no-class-level-state:%s" % name, "ok": not bad,
                    "detail": "class body of %s (%s) holds state shared by all instances: %s" % (name, ci.file, "; ".join(bad)) if bad else ""})
    return out


def module_state(ct, subs):
    out = []
    for rel, mod in sorted(ct.modules.items()):
        if not any(("/" + s + "/") in ("/" + rel) for s in subs):
            continue
        bad = []
        for st in mod.body:
            if isinstance(st, (ast.FunctionDef, ast.ClassDef, ast.Import, ast.ImportFrom)):
                continue
            if isinstance(st, ast.Expr) and isinstance(st.value, ast.Constant):
                continue
            bad.append("line %d: %s" % (st.lineno, type(st).__name__))
        out.append({"id": "syn:no-module-level-state:%s" % rel, "ok": not bad,
                    "detail": "module %s has module-level statements other than imports/defs: %s" % (rel, "; ".join(bad)) if bad else ""})
    return out


def register(reg):
    reg.syntactic["objective-purity"] = Check("C17", lambda ct, reg, prop: class_state(ct, ["synthetic_obj"]) + module_state(ct, ["synthetic_obj"]))
    reg.syntactic["no-shared-state"] = Check("C14", lambda ct, reg, prop: class_state(ct, ["algos", "partition"]) + module_state(ct, ["algos", "partition"]))
