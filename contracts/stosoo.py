"""StoSOO (C08, C03 call site, C04, C01)."""
from contracts.partition import treewf


def register(reg):
    loop, pred = reg.loop, reg.pred

    def fn(q, **kw):
        kw.setdefault("nla", "uf")
        kw.setdefault("axioms", ["i2r-exact"])
        return reg.fn(q, **kw)
    N = ["StoSOO_node"]
    NL = "self.partition.node_list"
    ALLN = "for h in range(self.partition.depth + 1) for k in range(len(%s[h]))" % NL
    INV = treewf("self.partition", props="C03 C01") + [
        ("Inv.evidence", "AllNodes_Evidence(self.partition)", "C04 C01"),
        ("params", "self.n >= 1 and self.k >= 1 and self.delta > 0 and self.delta <= 1 and self.h_max >= 0", "C01 C08"),
        # no cell is evaluated more than k times; only cells evaluated k times are ever expanded
        # (k need not be integral: the code evaluates a cell while visited_times < k, i.e. at most ceil(k) times)
        ("at-most-k", "all(%s[h][k].visited_times <= ceil(self.k) %s)" % (NL, ALLN), "C08"),
        ("internal-k", "all(implies(%s[h][k].children is not None, %s[h][k].visited_times >= self.k) %s)" % (NL, NL, ALLN), "C08"),
    ]
    fn("StoSOO_node.update_reward", N=N, props="C01 C04", params={"reward": "real"},
       requires=[("evidence", "Evidence(self)", "C04")],
       modifies=["self.visited_times", "self.mean_reward", "list(self.rewards)"],
       ensures=[("count", "self.visited_times == old(self.visited_times) + 1", "C04"),
                ("append", "len(self.rewards) == old(len(self.rewards)) + 1 and self.rewards[old(len(self.rewards))] == reward "
                           "and all(self.rewards[q] == old(self.rewards[q]) for q in range(old(len(self.rewards))))", "C04"),
                ("evidence", "Evidence(self)", "C04")])
    reg.opaque("stosoo_b", "mean:real, T:int, n:int, k:real, delta:real", "mean + sqrt(ln(n * k / delta) / (2 * T))")
    fn("StoSOO_node.compute_b_value", N=N, props="C01 C08", params={"n": "int", "k": "real", "delta": "real"}, reveal=["stosoo_b"],
       requires=[("evidence", "Evidence(self)", "C04"), ("ranges", "n >= 1 and k >= 1 and delta > 0 and delta <= 1", "C01")],
       modifies=["self.b_value", "self.mean_reward"],
       ensures=[("unvisited", "implies(self.visited_times == 0, self.b_value == inf)", "C08"),
                ("formula", "implies(self.visited_times != 0, self.b_value == xr(stosoo_b(self.mean_reward, self.visited_times, n, k, delta)))", "C08"),
                ("evidence", "Evidence(self)", "C04")])
    BEST = "(%s[%%s][%%s].children is None and all(implies(%s[%%s][q].children is None, %s[%%s][q].b_value <= %s[%%s][%%s].b_value) for q in range(%%s)))" % (NL, NL, NL, NL)
    KEPT = ("kept", "old(self.partition.depth) <= self.partition.depth "
                    "and all(len(%s[g]) >= old(len(%s[g])) for g in range(old(self.partition.depth) + 1)) "
                    "and all(%s[g][q] is old(%s[g][q]) and %s[g][q].visited_times == old(%s[g][q].visited_times) "
                    "and %s[g][q].rewards is old(%s[g][q].rewards) "
                    "for g in range(old(self.partition.depth) + 1) for q in range(old(len(%s[g]))))" % ((NL,) * 9), "C04")
    # after an expansion in this sweep the next layer holds a fresh, never evaluated cell: the sweep returns there
    def ahead(lo):
        return "any(%s[h][q].children is None and %s[h][q].visited_times == 0 for q in range(%s, len(%s[h])))" % (NL, NL, lo, NL)
    EXP = [
        ("bmax", "defined(self.b_max) and self.b_max != inf", "C08 C01"),
        ("depth-grows-once", "self.partition.depth <= old(self.partition.depth) + (0 if self.b_max == -inf else 1) "
                             "and h <= self.partition.depth", "C08 C01"),
        ("expanded", "implies(self.b_max != -inf, 1 <= h and " + ahead("0") + ")", "C08 C01 C03"),
    ]
    fn("StoSOO.pull", N=N, props="C01 C03 C04 C08", params={"time": "int"}, returns="list?[real]",
       locals={"max_b_node_ind": "int?", "node": "ref:$N"},
       requires=INV + [("budget", "time <= self.n", "C01")],
       modifies=["self.iteration", "self.b_max", "self.max_b_node_ind", "self.max_b_node_h", "*StoSOO_node.b_value", "*StoSOO_node.mean_reward",
                 "*P_node.children", "self.partition.depth", "list(self.partition.node_list)", "*list[ref:StoSOO_node]"],
       ensures=INV + [
           # (pull falls through and returns None only when the sweep passed the depth cap without finding a cell to evaluate)
           ("none-only-at-cap", "implies(result is None, self.partition.depth >= self.h_max)", "C01 C08"),
           ("handed", "implies(result is not None, defined(self.max_b_node_h) and defined(self.max_b_node_ind) "
                      "and 0 <= self.max_b_node_h and self.max_b_node_h <= self.partition.depth and self.max_b_node_h <= self.h_max "
                      "and 0 <= self.max_b_node_ind and self.max_b_node_ind < len(%s[self.max_b_node_h]) "
                      "and result is %s[self.max_b_node_h][self.max_b_node_ind].c_point)" % (NL, NL), "C01 C04 C08"),
           ("fewer-than-k", "implies(result is not None, %s[self.max_b_node_h][self.max_b_node_ind].visited_times < ceil(self.k) "
                            "and %s[self.max_b_node_h][self.max_b_node_ind].children is None)" % (NL, NL), "C08"),
           ("max-b-leaf", "implies(result is not None, " + BEST % ("self.max_b_node_h", "self.max_b_node_ind", "self.max_b_node_h", "self.max_b_node_h",
                                  "self.max_b_node_h", "self.max_b_node_ind", "len(%s[self.max_b_node_h])" % NL) + ")", "C08"),
           KEPT])
    loop("StoSOO.pull", 0, props="C08",
         invariants=list(INV) + [("nl", "node_list is %s and 0 <= h and self.iteration == time" % NL, "C08 C01"), KEPT] + EXP)
    loop("StoSOO.pull", 1, props="C08", var="j",
         invariants=list(INV) + [
             ("nl", "node_list is %s and 0 <= h and h <= self.partition.depth and self.iteration == time" % NL, "C08 C01"), KEPT] + EXP + [
             ("none", "implies(max_b_node_ind is None, all(%s[h][q].children is not None for q in range(j)))" % NL, "C08"),
             ("best", "implies(max_b_node_ind is not None, 0 <= max_b_node_ind and max_b_node_ind < j and " +
                      BEST % ("h", "max_b_node_ind", "h", "h", "h", "max_b_node_ind", "j") + ")", "C08"),
             ("fresh-b", "implies(self.b_max != -inf, " + ahead("j") + " or "
                         "(max_b_node_ind is not None and %s[h][max_b_node_ind].b_value == inf "
                         "and %s[h][max_b_node_ind].visited_times == 0))" % (NL, NL), "C08 C01"),
             ("b-inf-unvisited", "all(implies(%s[h][q].children is None and %s[h][q].visited_times == 0, %s[h][q].b_value == inf) for q in range(j))"
                                 % (NL, NL, NL), "C08"),
             ("b-fin-visited", "all(implies(%s[h][q].children is None and %s[h][q].visited_times != 0, isfin(%s[h][q].b_value)) for q in range(j))"
                               % (NL, NL, NL), "C08"),
         ])
    reg.cut("StoSOO.pull", "call:make_children#0", props="C08", clauses=[
        ("expanded-k-times-leaf", "%s[h][max_b_node_ind].children is not None and %s[h][max_b_node_ind].visited_times >= self.k" % (NL, NL), "C08"),
        ("expanded-best-of-depth", "all(implies(%s[h][q].children is None, %s[h][q].b_value <= %s[h][max_b_node_ind].b_value) "
                                   "for q in range(len(%s[h])))" % (NL, NL, NL, NL), "C08"),
        ("expanded-monotone", "%s[h][max_b_node_ind].b_value >= self.b_max" % NL, "C08"),
        ("first-expansion-of-sweep", "self.b_max == -inf and self.partition.depth <= old(self.partition.depth) + 1 and h + 1 <= self.partition.depth", "C08 C01"),
        ("fresh-child", "%s[h][max_b_node_ind].children[0] in %s[h + 1] and %s[h][max_b_node_ind].children[0].children is None "
                        "and %s[h][max_b_node_ind].children[0].visited_times == 0" % (NL, NL, NL, NL), "C08 C03"),
    ])
    reg.cut("StoSOO.receive_reward", "call:update_reward#0", props="C08", clauses=[
        ("one-more", "%s[self.max_b_node_h][self.max_b_node_ind].visited_times <= ceil(self.k)" % NL, "C08"),
    ])
    fn("StoSOO.receive_reward", N=N, props="C01 C04 C08", params={"time": "int", "reward": "real"},
       requires=INV + [("pulled", "defined(self.max_b_node_h) and defined(self.max_b_node_ind) and 0 <= self.max_b_node_h "
                                  "and self.max_b_node_h <= self.partition.depth and 0 <= self.max_b_node_ind "
                                  "and self.max_b_node_ind < len(%s[self.max_b_node_h]) "
                                  "and %s[self.max_b_node_h][self.max_b_node_ind].visited_times < ceil(self.k) "
                                  "and %s[self.max_b_node_h][self.max_b_node_ind].children is None" % (NL, NL, NL), "C04 C08 C01")],
       modifies=["%s[self.max_b_node_h][self.max_b_node_ind].visited_times" % NL, "%s[self.max_b_node_h][self.max_b_node_ind].mean_reward" % NL,
                 "list(%s[self.max_b_node_h][self.max_b_node_ind].rewards)" % NL],
       ensures=INV + [("credited", "Credited(%s[self.max_b_node_h][self.max_b_node_ind], reward)" % NL, "C04")])
    # constructor: n >= 2 so that the default k = ceil(n / ln(n)^3) and delta = 1 / sqrt(n) are defined (ln n > 0)
    fn("StoSOO.__init__", N=N, props="C01 C03 C08", axioms=["i2r-exact", "sqrt-arith"],
       params={"n": "int", "k": "real?", "h_max": "int", "delta": "real?", "domain": "list?[list[real]]", "partition": "cls?:Partition"},
       requires=[("ranges", "n >= 2 and h_max >= 0 and implies(k is not None, k >= 1) and implies(delta is not None, delta > 0 and delta <= 1)", "C01"),
                 ("box", "implies(domain is not None, Box(domain))", "C01")],
       raises={"ValueError": "domain is None or partition is None"},
       ensures=INV)
