"""SequOOL (C12, C03 call sites, C04, C01): sequential opening of cells depth by depth within the harmonic budget.

State between two rounds (d = curr_depth, K = arity, M = curr_node.parent while a cell is being opened, i.e. loc > 0):
  * cells deeper than d are unopened leaves; an unopened cell with children is M (it is at depth d, or the root while d == 0);
  * the children of an opened cell (and of the root once d >= 1) hold exactly one reward, those of M exactly the first `loc`;
    no cell of depth >= 1 ever holds more than one reward;
  * M is the *last maximiser* of the first reward among the unopened cells of depth d, which is what the per-pull recomputation
    of max_node returns, so the same cell is continued until its K children have been handed out in order;
  * budget accounting: g_open (ghost: cells opened at depth d so far) + budget == floor(h_max / d), budget >= 1.
After pull the same holds except that curr_node (the cell handed out) has not received its reward yet (`pending`)."""
from contracts.partition import treewf


def register(reg):
    loop, pred = reg.loop, reg.pred

    def fn(q, **kw):
        kw.setdefault("nla", "uf")
        kw.setdefault("axioms", ["i2r-exact"])
        return reg.fn(q, **kw)
    N = ["SequOOL_node"]
    NL = "self.partition.node_list"
    P = "self.partition"
    ALLN = "for h in range(self.partition.depth + 1) for k in range(len(%s[h]))" % NL
    reg.ghost_fields["g_open"] = "int"          # cells opened so far at the current depth

    for m in ("update_reward", "get_reward", "open", "not_opened"):
        fn("SequOOL_node." + m, N=N, inline=True, params={"reward": "real"} if m == "update_reward" else {})

    # H_n, the harmonic sum
    reg.recfun("hsum", "k:int", "0 if k <= 0 else hsum_z(k - 1) + 1 / k")
    fn("SequOOL.harmonic_series_sum", N=[None], props="C12 C01", params={"n": "int"}, returns="real", reveal=["hsum"],
       requires=[("n", "n >= 0", "C01")], modifies=[],
       ensures=[("harmonic", "result == hsum(n)", "C12"), ("at-least-one", "implies(n >= 1, result >= 1)", "C12 C01")])
    loop("SequOOL.harmonic_series_sum", 0, props="C12",
         invariants=[("partial", "res == hsum(_k) and implies(_k >= 1, res >= 1) and res >= 0", "C12")])

    M = "self.curr_node.parent"
    R = "%s[self.curr_depth][%%s].rewards[0]" % NL
    LASTMAX = ("all(implies(not %s[self.curr_depth][q].opened, %s <= %s.rewards[0] and "
               "implies(q > pos(%s[self.curr_depth], %s), %s < %s.rewards[0])) for q in range(len(%s[self.curr_depth])))"
               % (NL, R % "q", "%(m)s", NL, "%(m)s", R % "q", "%(m)s", NL))

    def struct():
        return [
            ("params", "self.h_max >= 0 and self.curr_depth >= 0 and 0 <= self.loc and self.loc < Arity(%s) and Arity(%s) >= 2 "
                       "and implies(self.curr_depth > self.h_max, self.loc == 0)" % (P, P), "C12 C01"),
            ("phase0", "implies(self.curr_depth == 0, (self.loc == 0 and %s.depth == 0) or "
                       "(self.loc > 0 and %s.depth == 1 and defined(self.curr_node) and %s is %s.root))" % (P, P, M, P), "C12 C01"),
            ("phaseN", "implies(self.curr_depth >= 1, self.curr_depth <= %s.depth and %s.depth <= self.curr_depth + 1 "
                       "and %s.root.children is not None)" % (P, P, P), "C12 C01"),
            ("in-progress", "implies(self.loc > 0, defined(self.curr_node) and %(m)s is not None and %(m)s.depth == self.curr_depth "
                            "and %(m)s in %(nl)s[self.curr_depth] and %(m)s.children is not None "
                            "and self.curr_node is %(m)s.children[self.loc - 1] and not %(m)s.opened)" % dict(m=M, nl=NL), "C12 C01"),
            ("continues-best", "implies(self.loc > 0 and self.curr_depth >= 1, " + LASTMAX % dict(m=M) + ")", "C12"),
            ("deeper", "all(implies(h > self.curr_depth, not %s[h][k].opened and %s[h][k].children is None) %s)" % (NL, NL, ALLN), "C12"),
            ("opened-flags", "all(implies(h <= self.curr_depth, "
                             "implies(%(nl)s[h][k].opened, %(nl)s[h][k].children is not None and h >= 1) and "
                             "implies(not %(nl)s[h][k].opened and %(nl)s[h][k].children is not None and (h >= 1 or self.curr_depth == 0), "
                             "self.loc > 0 and h == self.curr_depth and %(nl)s[h][k] is %(m)s)) %(alln)s)" % dict(nl=NL, m=M, alln=ALLN), "C12"),
            ("some-unopened", "implies(1 <= self.curr_depth and self.curr_depth <= self.h_max, "
                              "any(not %s[self.curr_depth][q].opened for q in range(len(%s[self.curr_depth]))))" % (NL, NL), "C12 C01"),
            ("budget", "implies(1 <= self.curr_depth and self.curr_depth <= self.h_max, defined(self.budget) and self.budget >= 1 "
                       "and g_open(self) >= 0 and g_open(self) + self.budget == floor(self.h_max / self.curr_depth))", "C12"),
            ("owned", "all(owner(%s[h][k].rewards) is %s[h][k] %s)" % (NL, NL, ALLN), "C04 C12"),
            ("chosen-sep", "all(self.chosen is not %s[h] for h in range(%s.depth + 1)) and "
                           "all(%s[h][k].children is not self.chosen %s)" % (NL, P, NL, ALLN), "C03 C01"),
        ]

    def evald(pending):
        pend = " and %s[h][k].children[j] is not self.curr_node" % NL if pending else ""
        return [
            ("once", "all(implies(h >= 1, len(%s[h][k].rewards) <= 1) %s)" % (NL, ALLN), "C12"),
            ("evaluated", "all(implies(%(nl)s[h][k].children is not None, all(len(%(nl)s[h][k].children[j].rewards) == "
                          "(1 if (%(nl)s[h][k].opened or (h == 0 and self.curr_depth >= 1) or j < self.loc)%(pend)s else 0) "
                          "for j in range(len(%(nl)s[h][k].children)))) %(alln)s)" % dict(nl=NL, pend=pend, alln=ALLN), "C12 C04"),
            ("chosen", "all(1 <= self.chosen[c].depth and self.chosen[c].depth <= %s.depth and self.chosen[c] in %s[self.chosen[c].depth] "
                       "and (len(self.chosen[c].rewards) == 1%s) for c in range(len(self.chosen)))"
                       % (P, NL, " or self.chosen[c] is self.curr_node" if pending else ""), "C12 C07"),
        ]
    TW = treewf(P, props="C03 C01")
    INV = TW + struct() + evald(False)
    PEND = TW + struct() + evald(True)

    OLDN = "for h in range(old(self.partition.depth) + 1) for k in range(old(len(%s[h])))" % NL
    KEPT = ("kept", "old(%s.depth) <= %s.depth and all(len(%s[h]) >= old(len(%s[h])) for h in range(old(%s.depth) + 1)) "
                    "and all(%s[h][k] is old(%s[h][k]) and %s[h][k].rewards is old(%s[h][k].rewards) "
                    "and len(%s[h][k].rewards) == old(len(%s[h][k].rewards)) %s)" % (P, P, NL, NL, P, NL, NL, NL, NL, NL, NL, OLDN), "C04 C12")
    SEARCH = "old(self.curr_depth) <= self.h_max"
    fn("SequOOL.pull", N=N, props="C01 C03 C04 C12 C15", params={"t": "int"}, returns="list[real]",
       locals={"max_node": "ref?:$N", "max_value": "float", "node": "ref:$N"},
       requires=INV,
       modifies=["self.iteration", "self.loc", "self.curr_depth", "self.budget", "self.curr_node", "list(self.chosen)",
                 "*SequOOL_node.opened", "*P_node.children", "self.partition.depth", "list(self.partition.node_list)",
                 "*list[ref:SequOOL_node]", "ghost g_open(self)"],
       ghost_after=["g_open(self) := (0 if self.curr_depth != old(self.curr_depth) else "
                    "old(g_open(self)) + (1 if self.loc == 0 and old(self.curr_depth) >= 1 and old(self.curr_depth) <= self.h_max else 0))"],
       ensures=PEND + [
           KEPT,
           ("handed", "implies(" + SEARCH + ", %(m)s is not None and %(m)s.depth == old(self.curr_depth) and %(m)s.children is not None "
                      "and self.curr_node is %(m)s.children[old(self.loc)] and len(self.curr_node.rewards) == 0 "
                      "and result is self.curr_node.c_point and self.curr_node.depth <= self.h_max + 1)" % dict(m=M), "C12 C04"),
           ("in-order", "implies(" + SEARCH + ", self.loc == (0 if old(self.loc) == Arity(%s) - 1 else old(self.loc) + 1))" % P, "C12"),
           ("opened-rule", "implies(" + SEARCH + " and old(self.curr_depth) >= 1, m is not None and old(not m.opened) and "
                           "m in %(nl)s[old(self.curr_depth)] and "
                           "all(implies(old(not %(nl)s[self.curr_depth][q].opened), "
                           "old(%(nl)s[self.curr_depth][q].rewards[0]) <= old(m.rewards[0])) "
                           "for q in range(old(len(%(nl)s[self.curr_depth])))))" % dict(nl=NL), "C12",
            {"m": ("ref?:$N", "self.curr_node.parent")}),
           ("opens", "all(%(nl)s[h][k].opened == (old(%(nl)s[h][k].opened) or "
                     "(%(s)s and old(self.curr_depth) >= 1 and old(self.loc) == Arity(%(p)s) - 1 and %(nl)s[h][k] is %(m)s)) %(oldn)s)"
                     % dict(nl=NL, s=SEARCH, p=P, m=M, oldn=OLDN), "C12"),
           ("depth-step", "self.curr_depth >= old(self.curr_depth) and self.curr_depth <= old(self.curr_depth) + 1 "
                          "and implies(self.curr_depth != old(self.curr_depth), " + SEARCH + " and old(self.loc) == Arity(%s) - 1)" % P, "C12"),
           ("within-budget", "implies(" + SEARCH + " and old(self.curr_depth) >= 1 and self.curr_depth == old(self.curr_depth), "
                             "g_open(self) < floor(self.h_max / self.curr_depth))", "C12"),
           ("chosen-grows", "implies(" + SEARCH + ", len(self.chosen) == old(len(self.chosen)) + 1 "
                            "and self.chosen[old(len(self.chosen))] is self.curr_node) "
                            "and all(self.chosen[c] is old(self.chosen[c]) for c in range(old(len(self.chosen))))", "C12 C07"),
           ("exhausted", "implies(not " + SEARCH + ", result is %s.root.c_point and self.curr_node is %s.root "
                         "and len(self.chosen) == old(len(self.chosen)) and self.curr_depth == old(self.curr_depth) "
                         "and %s.depth == old(%s.depth))" % (P, P, P, P), "C12 C07"),
       ])
    D = "self.curr_depth"
    loop("SequOOL.pull", 0, props="C12", var="i", modifies=[],
         invariants=[
             ("nl", "node_list is %s and 1 <= %s and %s <= %s.depth" % (NL, D, D, P), "C12 C01"),
             ("none", "implies(max_node is None, num == 0 and max_value == -inf and "
                      "all(%s[%s][q].opened for q in range(i)))" % (NL, D), "C12 C01"),
             ("max", "implies(max_node is not None, max_node in %(nl)s[%(d)s] and not max_node.opened and pos(%(nl)s[%(d)s], max_node) < i "
                     "and len(max_node.rewards) == 1 and max_value == xr(max_node.rewards[0]) and num >= 1 and "
                     "all(implies(not %(nl)s[%(d)s][q].opened, xr(%(nl)s[%(d)s][q].rewards[0]) <= max_value and "
                     "implies(q > pos(%(nl)s[%(d)s], max_node), xr(%(nl)s[%(d)s][q].rewards[0]) < max_value)) for q in range(i)))"
                     % dict(nl=NL, d=D), "C12"),
             ("num", "num >= 0 and implies(num >= 2, any(not %s[%s][q].opened and %s[%s][q] is not max_node for q in range(i)))"
                     % (NL, D, NL, D), "C12"),
         ])
    reg.cut("SequOOL.pull", "for#0", props="C12", clauses=[
        ("found", "max_node is not None and implies(self.loc > 0, max_node is %s) "
                  "and implies(self.loc == 0, max_node.children is None)" % M, "C12 C01"),
    ])
    reg.cut("SequOOL.pull", "call:make_children#1", props="C12", clauses=[
        ("layer-kept", "len(%(nl)s[%(d)s]) == old(len(%(nl)s[%(d)s])) and %(d)s == old(%(d)s) and "
                       "all(%(nl)s[%(d)s][q] is old(%(nl)s[%(d)s][q]) and %(nl)s[%(d)s][q].opened == old(%(nl)s[%(d)s][q].opened) "
                       "and %(nl)s[%(d)s][q].rewards is old(%(nl)s[%(d)s][q].rewards) "
                       "and %(nl)s[%(d)s][q].rewards[0] == old(%(nl)s[%(d)s][q].rewards[0]) "
                       "for q in range(len(%(nl)s[%(d)s])))" % dict(nl=NL, d=D), "C12 C03"),
        ("chosen-still-listed", "all(self.chosen[c] in %(nl)s[self.chosen[c].depth] and self.chosen[c].depth <= self.partition.depth "
                                "for c in range(len(self.chosen)))" % dict(nl=NL), "C12 C07"),
        ("fresh-kids", "max_node.children is not None and max_node in %(nl)s[%(d)s] and not max_node.opened and "
                       "all(len(max_node.children[j].rewards) == 0 and not max_node.children[j].opened "
                       "for j in range(len(max_node.children)))" % dict(nl=NL, d=D), "C12"),
    ])
    reg.cut("SequOOL.pull", "call:append#3", props="C12", clauses=[
        ("still-unopened", "0 <= pos(%(nl)s[%(d)s], max_node) and pos(%(nl)s[%(d)s], max_node) < len(%(nl)s[%(d)s]) "
                           "and not %(nl)s[%(d)s][pos(%(nl)s[%(d)s], max_node)].opened" % dict(nl=NL, d=D), "C12"),
    ])
    fn("SequOOL.receive_reward", N=N, props="C01 C04 C12 C15", params={"t": "int", "reward": "real"},
       requires=PEND + [("pulled", "defined(self.curr_node) and (len(self.curr_node.rewards) == 0 or self.curr_node is %s.root) "
                                   "and owner(self.curr_node.rewards) is self.curr_node" % P, "C04 C12")],
       modifies=["list(self.curr_node.rewards)"],
       ensures=INV + [("credited", "len(self.curr_node.rewards) == old(len(self.curr_node.rewards)) + 1 "
                                   "and self.curr_node.rewards[old(len(self.curr_node.rewards))] == reward "
                                   "and all(self.curr_node.rewards[q] == old(self.curr_node.rewards[q]) "
                                   "for q in range(old(len(self.curr_node.rewards))))", "C04")])
    fn("SequOOL.__init__", N=N, props="C01 C03 C12",
       params={"n": "int", "domain": "list?[list[real]]", "partition": "cls?:Partition"},
       requires=[("ranges", "n >= 1", "C01"), ("box", "implies(domain is not None, Box(domain))", "C01")],
       raises={"ValueError": "domain is None or partition is None"},
       ensures=INV + [("h_max", "self.h_max == floor(n / hsum(n))", "C12"),
                      ("start", "self.curr_depth == 0 and self.loc == 0 and len(self.chosen) == 0", "C12")])
