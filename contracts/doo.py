"""DOO (C08, C03 call site, C04, C01): one sweep over all leaves, expansion of the leaf with the largest b = reward + delta(depth)."""
from contracts.partition import treewf


def register(reg):
    loop, pred = reg.loop, reg.pred

    def fn(q, **kw):
        kw.setdefault("nla", "uf")
        return reg.fn(q, **kw)
    N = ["DOO_node"]
    NL = "self.partition.node_list"
    ALLN = "for h in range(self.partition.depth + 1) for k in range(len(%s[h]))" % NL
    INV = treewf("self.partition", props="C03 C01") + [
        ("sentinel", "all(%s[h][k].reward == -inf or isfin(%s[h][k].reward) %s)" % (NL, NL, ALLN), "C07 C08"),
        ("unvisited", "all(implies(not %s[h][k].visited, %s[h][k].reward == -inf) %s)" % (NL, NL, ALLN), "C07 C08"),
        ("internal-visited", "all(implies(%s[h][k].children is not None, %s[h][k].visited) %s)" % (NL, NL, ALLN), "C08"),
        ("delta", "defined(self.delta) and self.delta is not None", "C01"),
    ]
    fn("DOO_node.compute_b_value", N=N, inline=True, params={"delta": "real"})     # one assignment: b = reward + delta
    SWEPT = "all(implies(%s[g][k].children is None, %s[g][k].visited) for g in range(%%s) for k in range(len(%s[g])))" % (NL, NL, NL)
    KEPT = ("kept", "old(self.partition.depth) <= self.partition.depth "
                    "and all(len(%s[g]) >= old(len(%s[g])) for g in range(old(self.partition.depth) + 1)) "
                    "and all(%s[g][k] is old(%s[g][k]) and %s[g][k].reward == old(%s[g][k].reward) "
                    "for g in range(old(self.partition.depth) + 1) for k in range(old(len(%s[g]))))" % (NL, NL, NL, NL, NL, NL, NL), "C04")
    # the candidate for expansion while no expansion has happened in this pull; afterwards: a fresh unevaluated child is still ahead
    EVAL = ("evaluated", "all(implies(%s[g][k].visited and (fresh(%s[g][k]) == False), isfin(%s[g][k].reward)) "
                         "for g in range(self.partition.depth + 1) for k in range(len(%s[g])))" % (NL, NL, NL, NL), "C08 C01")
    CAND = [
        ("none", "implies(max_node is None, max_value == -inf and "
                 "all(%s[g][k].children is not None for g in range(h) for k in range(len(%s[g]))))" % (NL, NL), "C08 C01"),
        ("cand", "implies(max_node is not None and max_node.children is None, max_node.visited and max_node.b_value == max_value "
                 "and 0 <= max_node.depth and max_node.depth <= h and max_node.depth <= self.partition.depth "
                 "and max_node in %s[max_node.depth])" % NL, "C08 C03"),
        ("best-so-far", "all(implies(%s[g][k].children is None, %s[g][k].b_value <= max_value) for g in range(h) for k in range(len(%s[g])))"
                        % (NL, NL, NL), "C08"),
        ("expanded-once", "implies(max_node is not None and max_node.children is not None, "
                          "h <= max_node.depth + 1 and max_node.depth + 1 <= self.partition.depth and len(max_node.children) >= 1 "
                          "and max_node.children[0].children is None and not max_node.children[0].visited "
                          "and max_node.children[0] in %s[max_node.depth + 1])" % NL, "C08 C03"),
    ]
    fn("DOO.pull", N=N, props="C01 C03 C04 C08 C15", params={"time": "int"}, returns="list[real]",
       locals={"max_node": "ref?:$N", "max_value": "float"},
       requires=INV + [("rewards-in", "all(implies(%s[h][k].visited, isfin(%s[h][k].reward)) %s)" % (NL, NL, ALLN), "C08 C01")],
       modifies=["self.iteration", "self.curr_node", "*DOO_node.visited", "*DOO_node.b_value", "*P_node.children", "self.partition.depth",
                 "list(self.partition.node_list)", "*list[ref:DOO_node]"],
       ensures=INV + [
           ("handed", "result is self.curr_node.c_point and self.curr_node.children is None and self.curr_node.visited "
                      "and self.curr_node.reward == -inf", "C04 C08"),
           ("first", (SWEPT % "self.curr_node.depth") + " and 0 <= self.curr_node.depth and self.curr_node.depth <= self.partition.depth "
                     "and all(implies(%s[self.curr_node.depth][k].children is None, %s[self.curr_node.depth][k].visited) for k in range(pos)) "
                     "and %s[self.curr_node.depth][pos] is self.curr_node" % (NL, NL, NL), "C08", {"pos": ("int", "_k1")}),
           ("rewards-kept", "all(%s[h][k].reward == old(%s[h][k].reward) for h in range(old(self.partition.depth) + 1) "
                            "for k in range(old(len(%s[h]))))" % (NL, NL, NL), "C04"),
       ])
    loop("DOO.pull", 0, props="C08",
         invariants=list(INV) + [("nl", "node_list is %s and 0 <= h and h <= self.partition.depth" % NL, "C08 C01"),
                                 ("swept", SWEPT % "h", "C08"), KEPT, EVAL] + CAND + [
                                     ("cand-earlier", "implies(max_node is not None and max_node.children is None, max_node.depth < h)", "C08")])
    loop("DOO.pull", 1, props="C08",
         invariants=list(INV) + [
             ("nl", "node_list is %s and 0 <= h and h <= self.partition.depth" % NL, "C08"),
             ("swept", SWEPT % "h", "C08"), KEPT, EVAL] + CAND + [
             ("prefix-none", "implies(max_node is None, all(%s[h][k].children is not None for k in range(_k)))" % NL, "C08 C01"),
             ("prefix-visited", "all(implies(%s[h][k].children is None, %s[h][k].visited) for k in range(_k))" % (NL, NL), "C08"),
             ("prefix-best", "all(implies(%s[h][k].children is None, %s[h][k].b_value <= max_value and "
                             "%s[h][k].b_value == %s[h][k].reward + xr(delta)) for k in range(_k))" % (NL, NL, NL, NL), "C08"),
             ("cand-behind", "implies(max_node is not None and max_node.children is None and max_node.depth == h, "
                             "pos(%s[h], max_node) < _k)" % NL, "C08"),
             ("child-ahead", "implies(max_node is not None and max_node.children is not None and h == max_node.depth + 1, "
                             "pos(%s[h], max_node.children[0]) >= _k)" % NL, "C08 C03"),
         ])
    reg.cut("DOO.pull", "call:make_children#0", props="C08", clauses=[
        ("expanded-evaluated-leaf", "max_node.visited and max_node.children is not None", "C08"),
        ("expanded-best-of-all-leaves", "all(implies(%s[g][k].children is None and %s[g][k].visited, %s[g][k].b_value <= max_value) "
                                        "for g in range(self.partition.depth + 1) for k in range(len(%s[g]))) "
                                        "and max_node.b_value == max_value" % (NL, NL, NL, NL), "C08"),
    ])
    fn("DOO.receive_reward", N=N, props="C01 C04 C15", params={"time": "int", "reward": "real"},
       requires=[("pulled", "defined(self.curr_node)", "C01 C04")],
       modifies=["self.curr_node.reward"],
       ensures=[("credited", "self.curr_node.reward == xr(reward)", "C04")])
    fn("DOO.__init__", N=N, props="C01 C03 C08",
       params={"n": "int", "delta": "fn?", "domain": "list?[list[real]]", "partition": "cls?:Partition"},
       requires=[("ranges", "n >= 1", "C01"), ("box", "implies(domain is not None, Box(domain))", "C01")],
       raises={"ValueError": "domain is None or partition is None"},
       ensures=INV)
