"""Zooming (C11, C03 call site, C04, C01).

State: three dicts keyed by arm objects (`point`), always with identical key sequences (arms are only ever added, all three
entries at once).  Invariant: every arm's cell is a listed leaf containing the arm's point; distinct arms have distinct cells;
every leaf of depth >= 1 is the cell of some arm (with C02's tiling this is "the active cells cover the domain");
an arm's recorded count and mean are those of the rewards it received (ghost history g_acnt / g_asum)."""
from contracts.partition import treewf
from pyvc.dsl import by_cases


def register(reg):
    loop, pred = reg.loop, reg.pred
    G = reg.ghost_fields
    G["g_acnt"] = "int"      # rewards received by an arm
    G["g_asum"] = "real"     # their sum
    G["g_arm"] = "ref?:point"   # ghost inverse of active_points: the arm responsible for a cell

    def fn(q, **kw):
        kw.setdefault("nla", "uf")
        kw.setdefault("axioms", ["i2r-exact"])
        kw.setdefault("N", [None])
        kw.setdefault("closed_after_calls", True)
        return reg.fn(q, **kw)
    AP, PT, AR = "self.active_points", "self.pulled_times", "self.average_rewards"
    NL = "self.partition.node_list"
    fn("point.__init__", inline=True, params={"p": "list[real]"})
    fn("point.get_point", inline=True, params={})
    pred("SameKeys", "self",
         "%(ap)s is not %(pt)s and %(ap)s is not %(ar)s and %(pt)s is not %(ar)s and "
         "len(keys(%(pt)s)) == len(keys(%(ap)s)) and len(keys(%(ar)s)) == len(keys(%(ap)s)) and "
         "all(keys(%(pt)s)[i] is keys(%(ap)s)[i] and keys(%(ar)s)[i] is keys(%(ap)s)[i] and pos(keys(%(ap)s), keys(%(ap)s)[i]) == i "
         "and pos(keys(%(pt)s), keys(%(ap)s)[i]) == i and pos(keys(%(ar)s), keys(%(ap)s)[i]) == i "
         "for i in range(len(keys(%(ap)s))))" % dict(ap="self.active_points", pt="self.pulled_times", ar="self.average_rewards"))
    KEPT = ("kept", "all(keys(%(ap)s)[i] is old(keys(%(ap)s)[i]) and pos(keys(%(ap)s), old(keys(%(ap)s)[i])) == i "
                    "and %(ap)s[old(keys(%(ap)s)[i])] is old(%(ap)s[keys(%(ap)s)[i]]) and %(ap)s[keys(%(ap)s)[i]] is old(%(ap)s[keys(%(ap)s)[i]]) "
                    "and %(pt)s[keys(%(ap)s)[i]] == old(%(pt)s[keys(%(ap)s)[i]]) "
                    "and %(ar)s[keys(%(ap)s)[i]] == old(%(ar)s[keys(%(ap)s)[i]]) for i in range(old(len(keys(%(ap)s)))))"
                    % dict(ap=AP, pt=PT, ar=AR), "C11")
    NEW = "keys(%s)[old(len(keys(%s)))]" % (AP, AP)
    fn("Zooming.make_active", props="C01 C11 C14", params={"node": "ref:$N"}, dictstore="insert",
       requires=[("same-keys", "SameKeys(self)", "C11")],
       modifies=["dict(%s)" % AP, "dict(%s)" % PT, "dict(%s)" % AR],
       ghost_after=["fresh g_acnt(active_arm) := 0", "fresh g_asum(active_arm) := 0", "g_arm(node) := active_arm"],
       ensures=[("same-keys", "SameKeys(self)", "C11"),
                ("no-history", "g_acnt(%s) == 0 and g_asum(%s) == 0" % (NEW, NEW), "C11 C04"),
                ("inverse", "g_arm(node) is %s" % NEW, "C11"),
                ("one-more", "len(keys(%s)) == old(len(keys(%s))) + 1" % (AP, AP), "C11"),
                ("new-arm", "fresh(%(n)s) and %(n)s.p is node.c_point and %(ap)s[%(n)s] is node and %(pt)s[%(n)s] == 0 "
                            "and %(ar)s[%(n)s] == 0" % dict(n=NEW, ap=AP, pt=PT, ar=AR), "C11"),
                KEPT])
    # ---------------------------------------------------------------- invariant
    pred("Inside", "p, dom", "len(p) == len(dom) and all(dom[j][0] <= p[j] and p[j] <= dom[j][1] for j in range(len(dom)))")
    ARMS = "for i in range(len(keys(%s)))" % AP
    K_I = "keys(%s)[i]" % AP
    ALLN = "for h in range(self.partition.depth + 1) for k in range(len(%s[h]))" % NL
    ZINV = treewf("self.partition", props="C03 C01") + [
        ("same-keys", "SameKeys(self)", "C11 C01"),
        ("params", "self.phase >= 1 and self.nu > 0 and self.rho > 0 and self.partition.depth >= 1 and len(keys(%s)) >= 1" % AP, "C01 C11"),
        ("own-history", "all(%(pt)s[%(k)s] == g_acnt(%(k)s) and g_acnt(%(k)s) >= 0 and implies(g_acnt(%(k)s) == 0, g_asum(%(k)s) == 0) and "
                        "(%(ar)s[%(k)s] == 0 if g_acnt(%(k)s) == 0 else %(ar)s[%(k)s] == g_asum(%(k)s) / g_acnt(%(k)s)) %(arms)s)"
                        % dict(pt=PT, ar=AR, k=K_I, arms=ARMS), "C11 C04"),
        ("cells", "all(1 <= %(ap)s[%(k)s].depth and %(ap)s[%(k)s].depth <= self.partition.depth "
                  "and %(ap)s[%(k)s] in %(nl)s[%(ap)s[%(k)s].depth] and %(ap)s[%(k)s].children is None "
                  "and Inside(%(k)s.p, %(ap)s[%(k)s].domain) %(arms)s)" % dict(ap=AP, k=K_I, nl=NL, arms=ARMS), "C11 C01"),
        ("one-arm-per-cell", "all(implies(%(ap)s[keys(%(ap)s)[i]] is %(ap)s[keys(%(ap)s)[j]], i == j) %(arms)s for j in range(len(keys(%(ap)s))))"
                             % dict(ap=AP, arms=ARMS), "C11"),
        # with C02 (children tile their parent) this is: the cells of the active arms cover the domain
        ("cover", "all(implies(h >= 1 and %(nl)s[h][k].children is None, g_arm(%(nl)s[h][k]) is not None and g_arm(%(nl)s[h][k]) in keys(%(ap)s) "
                  "and %(ap)s[g_arm(%(nl)s[h][k])] is %(nl)s[h][k]) %(alln)s)" % dict(nl=NL, ap=AP, alln=ALLN), "C11"),
    ]
    # ---------------------------------------------------------------- pull: an active arm with the largest index
    reg.opaque("zidx", "mean:real, phase:int, pulls:int", "mean + 2 * sqrt(8 * phase / (2 + pulls))")
    IDX = "zidx(%s[%%s], self.phase, %s[%%s])" % (AR, PT)
    fn("Zooming.pull", props="C01 C11 C15", params={"time": "int"}, returns="list[real]", reveal=["zidx"],
       locals={"maximum_r_t": "float"},
       requires=ZINV, modifies=["self.best_arm"],
       ensures=[("best", "self.best_arm is not None and self.best_arm in keys(%s) and result is self.best_arm.p and "
                         "all(%s <= %s %s)" % (AP, IDX % (K_I, K_I), IDX % ("self.best_arm", "self.best_arm"), ARMS), "C11")])
    loop("Zooming.pull", 0, props="C11",
         invariants=[("none", "implies(self.best_arm is None, _k == 0 and maximum_r_t == -inf)", "C11 C01"),
                     ("max", "implies(self.best_arm is not None, self.best_arm in keys(%s) and maximum_r_t == xr(%s))"
                             % (AP, IDX % ("self.best_arm", "self.best_arm")), "C11"),
                     ("seen", "all(xr(%s) <= maximum_r_t for i in range(_k))" % (IDX % (K_I, K_I)), "C11")],
         modifies=["self.best_arm"])
    # ---------------------------------------------------------------- constructor: one arm at the centre of every depth-1 cell
    fn("Zooming.__init__", props="C01 C03 C11",
       params={"nu": "real", "rho": "real", "domain": "list?[list[real]]", "partition": "cls?:Partition"},
       requires=[("ranges", "nu > 0 and rho > 0 and rho < 1", "C01"), ("box", "implies(domain is not None, Box(domain))", "C01")],
       raises={"ValueError": "domain is None or partition is None"},
       ensures=ZINV)
    L1 = "%s[1]" % NL
    loop("Zooming.__init__", 0, props="C11", var="c",
         modifies=["dict(%s)" % AP, "dict(%s)" % PT, "dict(%s)" % AR, "ghost g_arm(*)"],
         invariants=treewf("self.partition", props="C03 C01") + [
             ("same-keys", "SameKeys(self)", "C11"),
             ("layer", "self.partition.depth == 1 and all(%s[k].children is None for k in range(len(%s))) "
                       "and all(implies(%s[k] is %s[k2], k == k2) for k in range(len(%s)) for k2 in range(len(%s)))" % (L1, L1, L1, L1, L1, L1), "C11 C03"),
             ("made", "len(keys(%(ap)s)) == c and all(%(ap)s[keys(%(ap)s)[i]] is %(l1)s[i] and keys(%(ap)s)[i].p is %(l1)s[i].c_point "
                      "and %(pt)s[keys(%(ap)s)[i]] == 0 and %(ar)s[keys(%(ap)s)[i]] == 0 and g_acnt(keys(%(ap)s)[i]) == 0 "
                      "and g_asum(keys(%(ap)s)[i]) == 0 and g_arm(%(l1)s[i]) is keys(%(ap)s)[i] for i in range(c))" % dict(ap=AP, pt=PT, ar=AR, l1=L1), "C11"),
             ("params", "self.phase == 1 and self.nu > 0 and self.rho > 0", "C01"),
         ])
    # receive_reward: the contract (function _receive_reward below) is written and about 97 % of its ~3000 obligations discharge,
    # but not all of them within the budget of a check (DESIGN.md 12.10); it is therefore NOT part of any check
    # (PYVC_WIP=1 enables it for further work).  For C11 the function is covered by the bounded run-time monitor instead.
    reg.bounded_standin = getattr(reg, "bounded_standin", {})
    reg.bounded_standin["C11"] = dict(searcher="rt/search_C11.py", quick_s=90, thorough_s=600,
                                      what="Zooming.receive_reward (own reward history, refinement rule, hand-over of the arm, cover) "
                                           "evaluated at run time on random histories of the real code: 6 partition classes/arities, "
                                           "3 domains, 4 (nu, rho) pairs, 4 reward patterns, 60-600 rounds per history")
    import os as _os
    if _os.environ.get("PYVC_WIP") == "1":
        _receive_reward(reg, fn, loop, ZINV, AP, PT, AR, NL, K_I, ARMS, ALLN)
    reg.cut("Zooming.__init__", "call:make_active#0", props="C11", clauses=[
        ("this-child", "child is %s[_k0] and g_arm(child) is keys(%s)[_k0] and len(keys(%s)) == _k0 + 1" % (L1, AP, AP), "C11"),
        ("earlier-kept", "all(%s[i] is not child and g_arm(%s[i]) is keys(%s)[i] for i in range(_k0))" % (L1, L1, AP), "C11"),
    ])



def _receive_reward(reg, fn, loop, ZINV, AP, PT, AR, NL, K_I, ARMS, ALLN):
    # ---------------------------------------------------------------- receive_reward: own history, refinement rule, hand-over
    B = "self.best_arm"
    P0 = "old(%s[%s])" % (AP, B)
    CH = "%s.children" % P0
    RAD = "sqrt(8 * self.phase / (2 + %s[%s])) <= self.nu * rpow(self.rho, %s.depth)" % (PT, B, P0)
    PULLED = ("pulled", "%s is not None and %s in keys(%s)" % (B, B, AP), "C11 C04 C01")
    OLDARMS = "for i in range(old(len(keys(%s))))" % AP
    KEPT_RR = ("arms-kept", "len(keys(%(ap)s)) >= old(len(keys(%(ap)s))) and all(keys(%(ap)s)[i] is old(keys(%(ap)s)[i]) and "
                            "implies(keys(%(ap)s)[i] is not %(b)s, %(ap)s[keys(%(ap)s)[i]] is old(%(ap)s[keys(%(ap)s)[i]]) "
                            "and %(pt)s[keys(%(ap)s)[i]] == old(%(pt)s[keys(%(ap)s)[i]]) "
                            "and %(ar)s[keys(%(ap)s)[i]] == old(%(ar)s[keys(%(ap)s)[i]])) %(oa)s)"
                            % dict(ap=AP, pt=PT, ar=AR, b=B, oa=OLDARMS), "C11 C04")
    fn("Zooming.receive_reward", props="C01 C03 C04 C11 C15", params={"time": "int", "reward": "real"}, dictstore="update",
       locals={"point": "list[real]", "child_domain": "list[list[real]]"},
       requires=ZINV + [PULLED, ("ranges", "self.rho < 1", "C01")],
       modifies=["dict(%s)" % AP, "dict(%s)" % PT, "dict(%s)" % AR, "self.time", "self.phase", "self.next_end_time",
                 "%s[%s].children" % (AP, B), "self.partition.depth", "list(self.partition.node_list)",
                 "list(self.partition.node_list[%s[%s].depth + 1]) when %s[%s].depth < self.partition.depth" % (AP, B, AP, B),
                 "ghost g_acnt(%s)" % B, "ghost g_asum(%s)" % B],
       ghost_after=["g_acnt(%s) := old(g_acnt(%s)) + 1" % (B, B), "g_asum(%s) := old(g_asum(%s)) + reward" % (B, B),
                    "g_arm(%s[%s]) := %s" % (AP, B, B)],
       ensures=ZINV + [KEPT_RR,
                       ("credited", "%(pt)s[%(b)s] == old(%(pt)s[%(b)s]) + 1 and self.best_arm is old(self.best_arm)" % dict(pt=PT, b=B), "C11 C04"),
                       ("refined-iff", "iff(%s.children is not None, %s)" % (P0, RAD), "C11"),
                       ("new-arms-at-centres", "all(keys(%(ap)s)[i].p is %(ap)s[keys(%(ap)s)[i]].c_point and %(pt)s[keys(%(ap)s)[i]] == 0 "
                                               "and %(ap)s[keys(%(ap)s)[i]].parent is %(p0)s "
                                               "and %(ap)s[keys(%(ap)s)[i]] is not %(ap)s[%(b)s] "
                                               "for i in range(old(len(keys(%(ap)s))), len(keys(%(ap)s))))"
                                               % dict(ap=AP, pt=PT, b=B, p0=P0), "C11"),
                       ("arm-stays-inside", "implies(%(p0)s.children is not None, %(ap)s[%(b)s].parent is %(p0)s and Inside(%(b)s.p, %(ap)s[%(b)s].domain))"
                                            % dict(ap=AP, b=B, p0=P0), "C11")])
    # children tile their parent (C02, proved per partition class as chain / halves clauses); its consequence for one point is
    # not derivable inside the contract language from the abstract make_children contract: assumed, and reported as such
    for tag in ("call:make_children#0", "call:make_children#1"):
        reg.assume_lemma("Zooming.receive_reward", tag, [
            ("some-child-contains-the-arm", "any(Inside(%s.p, %s[j].domain) for j in range(len(%s)))" % (B, CH, CH), "C11")],
            why="C02: the children of a cell tile it, and the arm lies in the cell (invariant `cells`)")
    UNPROC = "any(%(nl)s[h][k] is %(ch)s[j] for j in range(c, len(%(ch)s)))" % dict(nl=NL, ch=CH)
    loop("Zooming.receive_reward", 0, props="C11", var="c",
         modifies=["dict(%s)" % AP, "dict(%s)" % PT, "dict(%s)" % AR, "ghost g_arm(*)"],
         invariants=treewf("self.partition", props="C03 C01") + [
             ("same-keys", "SameKeys(self)", "C11"),
             ("params", "self.phase >= 1 and self.nu > 0 and self.rho > 0 and self.partition.depth >= 1 and len(keys(%s)) >= 1 "
                        "and %s is old(%s) and %s in keys(%s)" % (AP, B, B, B, AP), "C01 C11"),
             ("split", "children_list is %(ch)s and children_list is not None and len(children_list) == Arity(self.partition) "
                       "and %(p0)s in %(nl)s[%(p0)s.depth] and 1 <= %(p0)s.depth and %(p0)s.depth < self.partition.depth "
                       "and Inside(%(b)s.p, %(p0)s.domain) and all(fresh(%(ch)s[j]) and %(ch)s[j].children is None and %(ch)s[j].parent is %(p0)s "
                       "and %(ch)s[j].depth == %(p0)s.depth + 1 and %(ch)s[j] in %(nl)s[%(p0)s.depth + 1] "
                       "and all(implies(%(ch)s[j] is %(ch)s[j2], j == j2) for j2 in range(len(%(ch)s))) "
                       "for j in range(len(%(ch)s)))" % dict(ch=CH, p0=P0, nl=NL, b=B), "C11 C03"),
             KEPT_RR,
             ("credited", "%(pt)s[%(b)s] == old(%(pt)s[%(b)s]) + 1" % dict(pt=PT, b=B), "C11 C04"),
             ("own-history", "all(implies(%(k)s is not %(b)s, %(pt)s[%(k)s] == g_acnt(%(k)s) and g_acnt(%(k)s) >= 0 and implies(g_acnt(%(k)s) == 0, g_asum(%(k)s) == 0) and "
                             "(%(ar)s[%(k)s] == 0 if g_acnt(%(k)s) == 0 else %(ar)s[%(k)s] == g_asum(%(k)s) / g_acnt(%(k)s))) %(arms)s)"
                             % dict(pt=PT, ar=AR, k=K_I, arms=ARMS, b=B), "C11 C04"),
             ("cells", "all((%(k)s is %(b)s and %(ap)s[%(k)s] is %(p0)s) or (1 <= %(ap)s[%(k)s].depth and %(ap)s[%(k)s].depth <= self.partition.depth "
                       "and %(ap)s[%(k)s] in %(nl)s[%(ap)s[%(k)s].depth] and %(ap)s[%(k)s].children is None "
                       "and Inside(%(k)s.p, %(ap)s[%(k)s].domain)) %(arms)s)" % dict(ap=AP, k=K_I, nl=NL, arms=ARMS, b=B, p0=P0), "C11 C01"),
             ("one-arm-per-cell", "all(implies(%(ap)s[keys(%(ap)s)[i]] is %(ap)s[keys(%(ap)s)[j]], i == j) %(arms)s for j in range(len(keys(%(ap)s))))"
                                  % dict(ap=AP, arms=ARMS), "C11"),
             # cover, split in two: leaves that are not children of the refined cell keep their arm; processed children have one
             ("cover-old", "all(implies(h >= 1 and %(nl)s[h][k].children is None and %(nl)s[h][k].parent is not %(p0)s, "
                           "g_arm(%(nl)s[h][k]) is not None and g_arm(%(nl)s[h][k]) in keys(%(ap)s) and %(ap)s[g_arm(%(nl)s[h][k])] is %(nl)s[h][k]) %(alln)s)"
                           % dict(nl=NL, ap=AP, alln=ALLN, p0=P0), "C11"),
             ("cover-new", "all(%(ap)s[%(b)s] is %(ch)s[j] or (g_arm(%(ch)s[j]) is not None and g_arm(%(ch)s[j]) in keys(%(ap)s) "
                           "and %(ap)s[g_arm(%(ch)s[j])] is %(ch)s[j]) for j in range(c))" % dict(ap=AP, ch=CH, b=B), "C11"),
             ("moved", "iff(%(ap)s[%(b)s] is not %(p0)s, any(Inside(%(b)s.p, %(ch)s[j].domain) for j in range(c))) "
                       "and arm_kept == (%(ap)s[%(b)s] is not %(p0)s) "
                       "and (%(ap)s[%(b)s] is %(p0)s or any(%(ap)s[%(b)s] is %(ch)s[j] for j in range(c)))" % dict(ap=AP, b=B, p0=P0, ch=CH), "C11"),
             ("new-arms-at-centres", "all(keys(%(ap)s)[i].p is %(ap)s[keys(%(ap)s)[i]].c_point and %(pt)s[keys(%(ap)s)[i]] == 0 "
                                     "and g_acnt(keys(%(ap)s)[i]) == 0 and g_asum(keys(%(ap)s)[i]) == 0 and %(ap)s[keys(%(ap)s)[i]].parent is %(p0)s "
                                     "and any(%(ap)s[keys(%(ap)s)[i]] is %(ch)s[j] for j in range(c)) "
                                     "and %(ap)s[keys(%(ap)s)[i]] is not %(ap)s[%(b)s] "
                                     "for i in range(old(len(keys(%(ap)s))), len(keys(%(ap)s))))" % dict(ap=AP, pt=PT, b=B, p0=P0, ch=CH), "C11"),
         ])
    loop("Zooming.receive_reward", 1, props="C11", var="d", modifies=[],
         invariants=[("views", "point is %s.p and child_domain is child.domain and not child_updated" % B, "C11"),
                     ("inside-so-far", "all(child_domain[j][0] <= point[j] and point[j] <= child_domain[j][1] for j in range(d))", "C11")])
    for tag in ("call:make_active#0", "call:make_active#1"):
        reg.cut("Zooming.receive_reward", tag, props="C11", clauses=[
            ("fresh-arm-on-this-child", "%(ap)s[keys(%(ap)s)[len(keys(%(ap)s)) - 1]] is child and len(keys(%(ap)s)) >= 1 + old(len(keys(%(ap)s))) "
                                        "and keys(%(ap)s)[len(keys(%(ap)s)) - 1].p is child.c_point" % dict(ap=AP), "C11"),
            ("no-other-arm-on-this-child", "all(%(ap)s[keys(%(ap)s)[i]] is not child for i in range(len(keys(%(ap)s)) - 1))" % dict(ap=AP), "C11"),
            ("child-is-current", "child is %s[_k0]" % CH, "C11"),
            ("new-arm-inside", "Inside(keys(%(ap)s)[len(keys(%(ap)s)) - 1].p, child.domain) and 1 <= child.depth "
                               "and child.depth <= self.partition.depth and child in %(nl)s[child.depth] and child.children is None"
                               % dict(ap=AP, nl=NL), "C11"),
        ])
