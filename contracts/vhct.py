"""VHCT (C01 C03 C04 C05 C06): HCT with a variance-aware (Bernstein) width and per-cell thresholds."""
from contracts.partition import treewf
from contracts.hoo import alg_inv
from pyvc.dsl import by_cases


def register(reg):
    loop, pred = reg.loop, reg.pred

    def fn(q, **kw):
        kw.setdefault("nla", "uf")
        return reg.fn(q, **kw)
    N = ["VHCT_node"]
    NL = "self.partition.node_list"
    ALLN = "for h in range(self.partition.depth + 1) for k in range(len(%s[h]))" % NL
    RANGES = ("self.rho > 0 and self.rho < 1 and self.nu > 0 and self.delta > 0 and self.delta < 1 and self.c1 > 0 "
              "and self.iteration >= 1 and self.bound >= 0")
    INV = alg_inv("self", RANGES)
    FLOOR = "(lvar(n.rewards) if lvar(n.rewards) >= n.minvariance else n.minvariance)"
    # evidence of a VHCT cell: counts, mean and the variance floored at 1e-3 are those of its own reward list
    pred("Evidence", "n", "n.visited_times == len(n.rewards) and owner(n.rewards) is n "
                          "and (n.mean_reward == 0 if n.visited_times == 0 else n.mean_reward == lsum(n.rewards) / len(n.rewards)) "
                          "and n.minvariance == 0.001 and n.variance >= 0.001 "
                          "and (n.variance == 0.001 if n.visited_times == 0 else n.variance == %s)" % FLOOR, cls="VHCT_node")
    fn("VHCT_node.update_reward", N=N, props="C01 C04", params={"reward": "real"},
       requires=[("evidence", "Evidence(self)", "C04")],
       modifies=["self.visited_times", "self.mean_reward", "self.variance", "list(self.rewards)"],
       ensures=[("count", "self.visited_times == old(self.visited_times) + 1", "C04"),
                ("append", "len(self.rewards) == old(len(self.rewards)) + 1 and self.rewards[old(len(self.rewards))] == reward "
                           "and all(self.rewards[k] == old(self.rewards[k]) for k in range(old(len(self.rewards))))", "C04"),
                ("mean", "self.mean_reward == lsum(self.rewards) / len(self.rewards)", "C04"),
                ("variance", "self.variance == (lvar(self.rewards) if lvar(self.rewards) >= self.minvariance else self.minvariance)", "C04"),
                ("evidence", "Evidence(self)", "C04")])
    reg.opaque("vhct_u", "mean:real, variance:real, T:int, depth:int, nu:real, rho:real, c:real, bound:real, dt:real",
               "mean + (sqrt(c ** 2 * 2 * variance * ln(1 / dt) / T) + 3 * bound * c ** 2 * ln(1 / dt) / T) + nu * rpow(rho, depth)")
    pred("VHCT_U", "n, nu, rho, c, bound, dt",
         "n.u_value == xr(vhct_u(n.mean_reward, n.variance, n.visited_times, n.depth, nu, rho, c, bound, dt))")
    # tau_hi = ceil((var + 3 b nu rho^h + var sqrt(1 + 6 b nu rho^h / var)) * c^2 ln(1/dt) rho^(-2h) / nu^2); opaque outside the node method
    reg.opaque("vtau", "variance:real, depth:int, nu:real, rho:real, c:real, bound:real, dt:real",
               "real(ceil((variance + 3 * bound * nu * rpow(rho, depth) + variance * sqrt(1 + 6 * bound * nu * rpow(rho, depth) / variance)) "
               "* (c ** 2 * ln(1 / dt) * rpow(rho, -2 * depth) / nu ** 2)))")
    pred("VHCT_tau", "n, nu, rho, c, bound, dt", "vtau(n.variance, n.depth, nu, rho, c, bound, dt)")
    NP = {"nu": "real", "rho": "real", "c": "real", "bound": "real", "delta_tilde": "real"}
    fn("VHCT_node.compute_tau_hi_value", N=N, props="C01 C06", params=NP, reveal=["vtau"],
       requires=[("evidence", "Evidence(self)", "C04 C06"),
                 ("ranges", "rho > 0 and nu > 0 and bound >= 0 and delta_tilde > 0 and delta_tilde <= 1", "C01")],
       modifies=["self.tau"],
       ensures=[("tau", "self.tau == VHCT_tau(self, nu, rho, c, bound, delta_tilde)", "C06")])
    fn("VHCT_node.compute_u_value", N=N, props="C01 C05", params=NP, reveal=["vhct_u"],
       requires=[("evidence", "Evidence(self)", "C04 C05"),
                 ("ranges", "rho > 0 and bound >= 0 and delta_tilde > 0 and delta_tilde <= 1", "C01")],
       modifies=["self.u_value", "self.mean_reward"],
       ensures=[("unvisited", "implies(self.visited_times == 0, self.u_value == inf and self.mean_reward == old(self.mean_reward))", "C05"),
                ("formula", "implies(self.visited_times != 0, VHCT_U(self, nu, rho, c, bound, delta_tilde))", "C05"),
                ("evidence", "Evidence(self)", "C04")])

    # ---------------------------------------------------------------- updateBackwardTree
    BC = "all(Bcons(%s[h][k]) %s)" % (NL, ALLN)
    fn("VHCT.updateBackwardTree", N=N, props="C01 C05", params={},
       requires=treewf("self.partition", props="C03"), modifies=["*VHCT_node.b_value"],
       ensures=[("Bcons", BC, "C05")])
    DEEPER = ("deeper", "all(Bcons(%s[h][k]) for h in range(self.partition.depth + 2 - i, self.partition.depth + 1) "
                        "for k in range(len(%s[h])))" % (NL, NL))
    loop("VHCT.updateBackwardTree", 0, props="C05", var="i", invariants=[DEEPER, ("nodes", "nodes is %s" % NL)])
    loop("VHCT.updateBackwardTree", 1, props="C05",
         invariants=[DEEPER, ("prefix", "all(Bcons(layer[k]) for k in range(_k))"),
                     ("layer", "layer is %s[self.partition.depth + 1 - i] and nodes is %s and 1 <= i and i <= self.partition.depth + 1" % (NL, NL))])
    loop("VHCT.updateBackwardTree", 2, props="C05",
         invariants=[("tempB", "tempB == lmaxb(children, _k)"), ("same", "children is node.children and children is not None")])

    # ---------------------------------------------------------------- updateUvalueTree
    DT = "(1 if self.c1 * self.delta / tplus(self.iteration) >= 1 else self.c1 * self.delta / tplus(self.iteration))"
    UALL = ("all(implies(%s[h][k].visited_times != 0, VHCT_U(%s[h][k], self.nu, self.rho, self.c, self.bound, %s)) %%s)" % (NL, NL, DT))
    fn("VHCT.updateUvalueTree", N=N, props="C01 C04 C05", params={},
       requires=INV, modifies=["*VHCT_node.u_value", "*VHCT_node.mean_reward"],
       ensures=[("formula", UALL % ALLN, "C05"),
                ("Inv.evidence", "AllNodes_Evidence(self.partition)", "C04"),
                ("Inv.uinf", "AllNodes_UInf(self.partition)", "C05")])
    loop("VHCT.updateUvalueTree", 0, props="C05 C04",
         invariants=[("nl", "node_list is %s and delta_tilde == %s and delta_tilde > 0 and delta_tilde <= 1" % (NL, DT)),
                     ("done", UALL % ("for h in range(_k) for k in range(len(%s[h]))" % NL)),
                     ("evidence", "AllNodes_Evidence(self.partition)"), ("uinf", "AllNodes_UInf(self.partition)")])
    loop("VHCT.updateUvalueTree", 1, props="C05 C04",
         invariants=[("nl", "node_list is %s and layer is %s[_k0] and 0 <= _k0 and _k0 <= self.partition.depth "
                            "and delta_tilde == %s and delta_tilde > 0 and delta_tilde <= 1" % (NL, NL, DT)),
                     ("done", UALL % ("for h in range(_k0) for k in range(len(%s[h]))" % NL)),
                     ("prefix", "all(implies(layer[k].visited_times != 0, VHCT_U(layer[k], self.nu, self.rho, self.c, self.bound, %s)) "
                                "for k in range(_k))" % DT),
                     ("evidence", "AllNodes_Evidence(self.partition)"), ("uinf", "AllNodes_UInf(self.partition)")])

    # ---------------------------------------------------------------- optTraverse: per-cell thresholds (C06), greedy descent (C05)
    DTT = "(0.5 if self.c1 * self.delta / tplus(self.iteration) >= 0.5 else self.c1 * self.delta / tplus(self.iteration))"
    TAU1 = "%s[h][k].tau == VHCT_tau(%s[h][k], self.nu, self.rho, self.c, self.bound, %s)" % (NL, NL, DTT)
    TAUS = "all(%s for h in range(1, self.partition.depth + 1) for k in range(len(%s[h])))" % (TAU1, NL)
    pred("VHCT_Stops", "path",
         "all(path[k].children is not None and path[k].visited_times >= path[k].tau for k in range(len(path) - 1)) "
         "and (path[len(path) - 1].children is None or path[len(path) - 1].visited_times < path[len(path) - 1].tau)")
    fn("VHCT.optTraverse", N=N, props="C01 C04 C05 C06", params={}, returns="tuple[ref:$N,list[ref:$N]]",
       requires=INV, modifies=["*VHCT_node.tau"],
       ensures=[("taus", TAUS, "C06"),
                ("path", "fresh(result[1]) and PathOK(self.partition, result[1])", "C05 C04"),
                ("end", "result[0] is result[1][len(result[1]) - 1] and result[1][0] is self.partition.root", "C05"),
                ("stops", "VHCT_Stops(result[1])", "C04 C05 C06"),
                ("greedy", "Greedy(result[1])", "C05")])
    DTI = ("dt", "delta_tilde == %s and delta_tilde > 0 and delta_tilde <= 0.5" % DTT)
    loop("VHCT.optTraverse", 0, props="C06", var="h",
         invariants=[("done", "all(%s for h in range(1, h) for k in range(len(%s[h])))" % (TAU1, NL)), DTI])
    loop("VHCT.optTraverse", 1, props="C06",
         invariants=[("done", "all(%s for h in range(1, h) for k in range(len(%s[h])))" % (TAU1, NL)),
                     ("prefix", "all(%s[h][k].tau == VHCT_tau(%s[h][k], self.nu, self.rho, self.c, self.bound, %s) for k in range(_k))" % (NL, NL, DTT)),
                     ("h", "1 <= h and h <= self.partition.depth"), DTI])
    loop("VHCT.optTraverse", 2, props="C05", modifies=["list(path)"],
         decreases="self.partition.depth - curr_node.depth",
         invariants=[("taus", TAUS),
                     ("path", "fresh(path) and PathOK(self.partition, path) and path[len(path) - 1] is curr_node "
                              "and path[0] is self.partition.root"),
                     ("passed", "all(path[k].children is not None and path[k].visited_times >= path[k].tau for k in range(len(path) - 1))", "C04 C05 C06"),
                     ("greedy", "Greedy(path)")])
    loop("VHCT.optTraverse", 3, props="C05", modifies=[],
         invariants=[("kids", "children is curr_node.children and children is not None"),
                     ("max", "maxchild.parent is curr_node and maxchild.depth == curr_node.depth + 1 "
                             "and maxchild in self.partition.node_list[maxchild.depth] "
                             "and all(children[j].b_value <= maxchild.b_value for j in range(_k + 1))")])

    # ---------------------------------------------------------------- updateRewardTree / pull / updateAllTree / receive_reward
    pred("CreditedV", "n, reward",
         "n.visited_times == old(n.visited_times) + 1 and len(n.rewards) == old(len(n.rewards)) + 1 "
         "and n.rewards[old(len(n.rewards))] == reward "
         "and all(n.rewards[q] == old(n.rewards[q]) for q in range(old(len(n.rewards)))) "
         "and n.mean_reward == lsum(n.rewards) / len(n.rewards) "
         "and n.variance == (lvar(n.rewards) if lvar(n.rewards) >= n.minvariance else n.minvariance)")
    pred("UntouchedV", "n",
         "n.visited_times == old(n.visited_times) and n.rewards is old(n.rewards) and len(n.rewards) == old(len(n.rewards)) "
         "and all(n.rewards[q] == old(n.rewards[q]) for q in range(len(n.rewards))) and n.variance == old(n.variance)")
    END = "path[len(path) - 1]"
    ETG = [END + ".visited_times", END + ".mean_reward", END + ".variance", "list(%s.rewards)" % END]
    fn("VHCT.updateRewardTree", N=N, props="C01 C04", params={"path": "list[ref:$N]", "reward": "real"},
       requires=INV + [("path", "PathOK(self.partition, path)", "C04")],
       modifies=ETG + ["self.iteration"],
       ensures=[("credited", "CreditedV(%s, reward)" % END, "C04"),
                ("Inv.evidence", "AllNodes_Evidence(self.partition)", "C04"),
                ("rounds", "self.iteration == old(self.iteration) + 1", "C04")])
    fn("VHCT.expand", N=N, inline=True, params={"parent": "ref:$N"})
    fn("VHCT.pull", N=N, props="C01 C04 C05 C15", params={"time": "int"}, returns="list[real]",
       requires=INV, modifies=["self.path", "self.curr_node", "*VHCT_node.tau"],
       ensures=INV + [("taus", TAUS, "C06"),
                      ("path", "defined(self.path) and defined(self.curr_node) and fresh(self.path) and PathOK(self.partition, self.path)", "C04 C05"),
                      ("end", "self.curr_node is self.path[len(self.path) - 1] and self.path[0] is self.partition.root", "C05"),
                      ("stops", "VHCT_Stops(self.path)", "C05 C06"),
                      ("greedy", "Greedy(self.path)", "C05"),
                      ("result", "result is self.curr_node.c_point", "C01 C04")])
    DT0 = ("(1 if self.c1 * self.delta / tplus(old(self.iteration)) >= 1 else self.c1 * self.delta / tplus(old(self.iteration)))")
    UPD_MOD = ETG + ["*VHCT_node.u_value", "*VHCT_node.b_value", "*VHCT_node.mean_reward", "self.iteration",
                     END + ".children", "self.partition.depth", "list(self.partition.node_list)",
                     "list(self.partition.node_list[%s.depth + 1]) when %s.depth < self.partition.depth" % (END, END)]
    OLDN = "for h in range(old(self.partition.depth) + 1) for k in range(old(len(%s[h])))" % NL
    U5 = "self.nu, self.rho, self.c, self.bound"
    AFTER = [
        ("credited", "CreditedV(%s, reward)" % END, "C04"),
        ("others", "all(implies(%s[h][k] is not %s, UntouchedV(%s[h][k])) %s)" % (NL, END, NL, OLDN), "C04"),
        ("u-end", "VHCT_U(%s, %s, %s)" % (END, U5, DT0), "C05"),
        ("u-refresh", "implies(real(old(self.iteration)) == tplus(old(self.iteration)), "
                      "all(implies(%s[h][k] is not %s and %s[h][k].visited_times != 0, "
                      "VHCT_U(%s[h][k], %s, %s)) %s))" % (NL, END, NL, NL, U5, DT0, OLDN), "C05"),
        ("u-kept", "implies(real(old(self.iteration)) != tplus(old(self.iteration)), "
                   "all(implies(%s[h][k] is not %s, %s[h][k].u_value == old(%s[h][k].u_value)) %s))" % (NL, END, NL, NL, OLDN), "C05"),
        by_cases("Bcons", "Bcons(%s[h][k])" % NL, ALLN,
                 ["h <= old(self.partition.depth) and k < old(len(%s[h])) and %s[h][k] is old(%s[h][k]) and %s[h][k] is not %s" % (NL, NL, NL, NL, END),
                  "%s[h][k] is %s" % (NL, END),
                  "%s[h][k] in %s.children and %s.children is not old(%s.children)" % (NL, END, END, END)], props="C05"),
        ("rule", "iff(%s.children is not old(%s.children), old(%s.children) is None and %s.visited_times >= %s.tau)"
                 % (END, END, END, END, END), "C06"),
        ("tau-kept", "%s.tau == old(%s.tau)" % (END, END), "C06"),
        ("kids-new", "implies(%s.children is not old(%s.children), all(fresh(%s.children[j]) and NodeInit(%s.children[j]) "
                     "for j in range(len(%s.children))))" % (END, END, END, END, END), "C06"),
        ("only-here", "all(implies(%s[h][k] is not %s, %s[h][k].children is old(%s[h][k].children)) %s)" % (NL, END, NL, NL, OLDN), "C06 C03"),
        ("layers-append-only", "all(%s[h][k] is old(%s[h][k]) %s)" % (NL, NL, OLDN), "C03 C04"),
    ]
    fn("VHCT.updateAllTree", N=N, props="C01 C03 C04 C05 C06", params={"path": "list[ref:$N]", "reward": "real"},
       requires=INV + [("path", "PathOK(self.partition, path)", "C04 C03")],
       modifies=UPD_MOD, ensures=INV + AFTER)

    def selfpath(cl):
        out = []
        for c in cl:
            if isinstance(c, tuple):
                out.append((c[0], c[1].replace("path[", "old(self.path)[").replace("len(path)", "old(len(self.path))"), c[2]))
            else:
                out.append((c.label, c.text.replace("path[", "old(self.path)[").replace("len(path)", "old(len(self.path))"), " ".join(sorted(c.props))))
        return out
    fn("VHCT.receive_reward", N=N, props="C01 C03 C04 C05 C06 C15", params={"time": "int", "reward": "real"},
       requires=INV + [("pulled", "defined(self.path) and PathOK(self.partition, self.path)", "C04")],
       modifies=[m.replace("path", "self.path") for m in UPD_MOD],
       ensures=INV + selfpath(AFTER))
    fn("VHCT.get_last_point", N=N, props="C01 C04 C05 C15", params={}, returns="list[real]",
       requires=INV, modifies=["self.path", "self.curr_node", "*VHCT_node.tau"],
       ensures=INV + [("result", "defined(self.curr_node) and result is self.curr_node.c_point", "C01"),
                      # a recommendation query re-derives the pull path by the same rule (so it is harmless between rounds)
                      ("path", "defined(self.path) and fresh(self.path) and PathOK(self.partition, self.path)", "C04 C05 C15"),
                      ("end", "self.curr_node is self.path[len(self.path) - 1] and self.path[0] is self.partition.root", "C04 C05 C15"),
                      ("stops", "VHCT_Stops(self.path)", "C04 C05 C15"),
                      ("greedy", "Greedy(self.path)", "C04 C05 C15")])
    fn("VHCT.__init__", N=N, props="C01 C03 C06",
       params={"nu": "real", "rho": "real", "c": "real", "delta": "real", "bound": "real", "domain": "list?[list[real]]",
               "partition": "cls?:Partition"},
       requires=[("ranges", "nu > 0 and 0 < rho and rho < 1 and 0 < delta and delta < 1 and bound >= 0", "C01"),
                 ("box", "implies(domain is not None, Box(domain))", "C01")],
       raises={"ValueError": "domain is None or partition is None"},
       ensures=INV + [("root-split", "self.partition.depth == 1 and self.partition.root.children is not None", "C06"),
                      ("own", "fresh(self.partition) and self.partition.domain is domain", "C14")])
