"""Node classes of the algorithms: constructors (inlined into the partition code), evidence updates (C04), indices (C05)."""


def register(reg):
    loop, pred = reg.loop, reg.pred

    def fn(q, **kw):
        kw.setdefault("nla", "uf")
        return reg.fn(q, **kw)
    reg.ghost_fields["owner"] = "ref?:$N"     # owner(list) = the node whose reward list it is (ghost back-pointer)

    # ---- what a freshly constructed node looks like (postcondition of make_children / Partition.__init__, C06)
    ZERO = ("c.visited_times == 0 and len(c.rewards) == 0 and fresh(c.rewards) and owner(c.rewards) is c and c.mean_reward == 0")
    pred("NodeInit", "c", "c.b_value == inf and c.u_value == inf and " + ZERO, cls="HOO_node")
    pred("NodeInit", "c", "c.b_value == inf and c.u_value == inf and " + ZERO, cls="HCT_node")
    pred("NodeInit", "c", "c.b_value == inf and c.u_value == inf and " + ZERO +
         " and c.minvariance == 0.001 and c.variance == 0.001 and c.tau == 0", cls="VHCT_node")
    for C in ("HOO_node", "HCT_node", "VHCT_node", "StoSOO_node"):
        fn(C + ".__init__", inline=True, props="C04 C06",
           params={"depth": "int", "index": "int", "parent": "ref?:$N", "domain": "list[list[real]]"},
           ghost_after=["owner(self.rewards) := self"])

    # ---- evidence of one node: counts and means are those of its own reward list (C04)
    pred("Evidence", "n", "n.visited_times == len(n.rewards) and owner(n.rewards) is n "
                          "and (n.mean_reward == 0 if n.visited_times == 0 else n.mean_reward == lsum(n.rewards) / n.visited_times)")

    UPD = dict(
        params={"reward": "real"},
        requires=[("evidence", "Evidence(self)", "C04")],
        modifies=["self.visited_times", "self.mean_reward", "list(self.rewards)"],
        ensures=[
            ("count", "self.visited_times == old(self.visited_times) + 1", "C04"),
            ("append", "len(self.rewards) == old(len(self.rewards)) + 1 and self.rewards[old(len(self.rewards))] == reward "
                       "and all(self.rewards[k] == old(self.rewards[k]) for k in range(old(len(self.rewards))))", "C04"),
            ("mean", "self.mean_reward == lsum(self.rewards) / self.visited_times", "C04"),
            ("evidence", "Evidence(self)", "C04"),
        ])
    for C in ("HOO_node", "HCT_node"):
        fn(C + ".update_reward", props="C01 C04", **UPD)

    # ---- T-HOO's U-value (C05): mean + sqrt(2 ln(rounds) / T) + nu * rho^depth, untouched (infinite) while unvisited
    # U = mean + sqrt(2 ln(rounds) / T) + nu * rho^depth ; opaque outside the node method
    reg.opaque("hoo_u", "mean:real, T:int, depth:int, nu:real, rho:real, rounds:int",
               "mean + sqrt(2 * ln(rounds) / T) + nu * rpow(rho, depth)")
    fn("HOO_node.compute_u_value", props="C01 C05", reveal=["hoo_u"],
       params={"nu": "real", "rho": "real", "rounds": "int"},
       requires=[("evidence", "Evidence(self)", "C04 C05"),
                 ("ranges", "rho > 0 and rounds >= 1", "C01")],
       modifies=["self.b_value", "self.u_value", "self.mean_reward"],
       ensures=[
           ("unvisited", "implies(self.visited_times == 0, self.u_value == old(self.u_value) and self.b_value == inf "
                         "and self.mean_reward == old(self.mean_reward))", "C05"),
           ("formula", "implies(self.visited_times != 0, self.u_value == xr(hoo_u(self.mean_reward, self.visited_times, "
                       "self.depth, nu, rho, rounds)) and self.b_value == old(self.b_value))", "C05"),
           ("evidence", "Evidence(self)", "C04"),
       ])
