"""T-HOO (C01, C03, C04, C05, C06).  The same structure is instantiated for HCT and VHCT in hct.py."""
from contracts.partition import treewf
from pyvc.dsl import by_cases


def tree_preds(reg):
    pred = reg.pred
    pred("AllNodes_Evidence", "P", "all(Evidence(P.node_list[h][k]) for h in range(P.depth + 1) for k in range(len(P.node_list[h])))")
    pred("AllNodes_UInf", "P", "all(implies(P.node_list[h][k].visited_times == 0, P.node_list[h][k].u_value == inf) "
                               "for h in range(P.depth + 1) for k in range(len(P.node_list[h])))")
    # B = U at leaves, B = min(U, max over children of B) elsewhere
    pred("Bcons", "n", "(n.b_value == n.u_value) if n.children is None else (n.b_value == xmin(n.u_value, lmaxb(n.children)))")


def alg_inv(a, ranges):
    p = a + ".partition"
    return treewf(p, props="C03 C01") + [
        ("Inv.evidence", "AllNodes_Evidence(%s)" % p, "C04 C01"),
        ("Inv.uinf", "AllNodes_UInf(%s)" % p, "C05"),
        ("Inv.ranges", ranges.replace("self", a), "C01"),
    ]


def register(reg):
    loop, pred = reg.loop, reg.pred

    def fn(q, **kw):
        kw.setdefault("nla", "uf")
        return reg.fn(q, **kw)
    tree_preds(reg)
    N = ["HOO_node"]
    INV = alg_inv("self", "self.rho > 0 and self.rounds >= 1 and self.nu > 0")

    # ---------------------------------------------------------------- updateBackwardTree (C05)
    fn("T_HOO.updateBackwardTree", N=N, props="C01 C05", params={},
       requires=treewf("self.partition", props="C03"),
       modifies=["*HOO_node.b_value"],
       ensures=[("Bcons", "all(Bcons(self.partition.node_list[h][k]) for h in range(0, self.partition.depth + 1) "
                          "for k in range(len(self.partition.node_list[h])))", "C05")])
    loop("T_HOO.updateBackwardTree", 0, props="C05", var="i",
         invariants=[
             ("deeper", "all(Bcons(self.partition.node_list[h][k]) for h in range(self.partition.depth + 2 - i, self.partition.depth + 1) "
                        "for k in range(len(self.partition.node_list[h])))"),
             ("nodes", "nodes is self.partition.node_list"),
         ])
    loop("T_HOO.updateBackwardTree", 1, props="C05",
         invariants=[
             ("deeper", "all(Bcons(self.partition.node_list[h][k]) for h in range(self.partition.depth + 2 - i, self.partition.depth + 1) "
                        "for k in range(len(self.partition.node_list[h])))"),
             ("prefix", "all(Bcons(layer[k]) for k in range(_k))"),
             ("layer", "layer is self.partition.node_list[self.partition.depth + 1 - i] and nodes is self.partition.node_list "
                       "and 1 <= i and i <= self.partition.depth + 1"),
         ])
    loop("T_HOO.updateBackwardTree", 2, props="C05",
         invariants=[("tempB", "tempB == lmaxb(children, _k)"),
                     ("same", "children is node.children and children is not None")])

    # ---------------------------------------------------------------- shared shapes
    NL = "self.partition.node_list"
    ALLN = "for h in range(self.partition.depth + 1) for k in range(len(%s[h]))" % NL
    pred("UFormula_HOO", "A, n",
         "implies(n.visited_times != 0, n.u_value == xr(hoo_u(n.mean_reward, n.visited_times, n.depth, A.nu, A.rho, A.rounds)))")
    pred("PathOK", "P, path", "len(path) >= 1 and len(path) <= P.depth + 1 "
                              "and all(path[k].depth == k and path[k] in P.node_list[k] for k in range(len(path))) "
                              "and all(path is not P.node_list[h] for h in range(P.depth + 1))")
    pred("Credited", "n, reward",
         "n.visited_times == old(n.visited_times) + 1 and len(n.rewards) == old(len(n.rewards)) + 1 "
         "and n.rewards[old(len(n.rewards))] == reward "
         "and all(n.rewards[q] == old(n.rewards[q]) for q in range(old(len(n.rewards)))) "
         "and n.mean_reward == lsum(n.rewards) / n.visited_times")
    pred("Untouched", "n",
         "n.visited_times == old(n.visited_times) and n.rewards is old(n.rewards) and len(n.rewards) == old(len(n.rewards)) "
         "and all(n.rewards[q] == old(n.rewards[q]) for q in range(len(n.rewards)))")
    pred("Greedy", "path",
         "all(path[k].children is not None and path[k + 1].parent is path[k] "
         "and all(path[k].children[j].b_value <= path[k + 1].b_value for j in range(len(path[k].children))) "
         "for k in range(len(path) - 1))")
    EVID_TARGETS = ["HOO_node.visited_times n where n in path", "HOO_node.mean_reward n where n in path",
                    "list[real:reward] r where owner(r) in path and owner(r).rewards is r"]

    # ---------------------------------------------------------------- updateUvalueTree (C05)
    fn("T_HOO.updateUvalueTree", N=N, props="C01 C04 C05", params={},
       requires=INV,
       modifies=["*HOO_node.u_value", "*HOO_node.b_value", "*HOO_node.mean_reward"],
       ensures=[("formula", "all(UFormula_HOO(self, %s[h][k]) %s)" % (NL, ALLN), "C05"),
                ("Inv.evidence", "AllNodes_Evidence(self.partition)", "C04"),
                ("Inv.uinf", "AllNodes_UInf(self.partition)", "C05")])
    loop("T_HOO.updateUvalueTree", 0, props="C05 C04",
         invariants=[
             ("nl", "node_list is %s" % NL),
             ("done", "all(UFormula_HOO(self, %s[h][k]) for h in range(_k) for k in range(len(%s[h])))" % (NL, NL)),
             ("evidence", "AllNodes_Evidence(self.partition)"), ("uinf", "AllNodes_UInf(self.partition)"),
         ])
    loop("T_HOO.updateUvalueTree", 1, props="C05 C04",
         invariants=[
             ("nl", "node_list is %s and layer is %s[_k0] and 0 <= _k0 and _k0 <= self.partition.depth" % (NL, NL)),
             ("done", "all(UFormula_HOO(self, %s[h][k]) for h in range(_k0) for k in range(len(%s[h])))" % (NL, NL)),
             ("prefix", "all(UFormula_HOO(self, layer[k]) for k in range(_k))"),
             ("evidence", "AllNodes_Evidence(self.partition)"), ("uinf", "AllNodes_UInf(self.partition)"),
         ])

    # ---------------------------------------------------------------- updateRewardTree (C04)
    fn("T_HOO.updateRewardTree", N=N, props="C01 C04", params={"path": "list[ref:$N]", "reward": "real"},
       requires=INV + [("path", "PathOK(self.partition, path)", "C04")],
       modifies=EVID_TARGETS + ["self.iteration"],
       ensures=[("credited", "all(Credited(path[k], reward) for k in range(len(path)))", "C04"),
                ("Inv.evidence", "AllNodes_Evidence(self.partition)", "C04"),
                ("rounds", "self.iteration == old(self.iteration) + 1", "C04")])
    loop("T_HOO.updateRewardTree", 0, props="C04", modifies=EVID_TARGETS,
         invariants=[
             ("done", "all(Credited(path[j], reward) for j in range(_k))"),
             ("todo", "all(Untouched(path[j]) for j in range(_k, len(path)))"),
             ("evidence", "AllNodes_Evidence(self.partition)"),
         ])

    # ---------------------------------------------------------------- optTraverse (C05)
    fn("T_HOO.optTraverse", N=N, props="C01 C04 C05", params={}, returns="tuple[ref:$N,list[ref:$N]]",
       requires=INV, modifies=[],
       ensures=[("path", "fresh(result[1]) and PathOK(self.partition, result[1])", "C05 C04"),
                ("end", "result[0] is result[1][len(result[1]) - 1] and result[1][0] is self.partition.root "
                        "and result[0].children is None", "C03 C05 C06"),
                ("greedy", "Greedy(result[1])", "C05")])
    loop("T_HOO.optTraverse", 0, props="C05", modifies=["list(path)"],
         decreases="self.partition.depth - curr_node.depth",
         invariants=[
             ("path", "fresh(path) and PathOK(self.partition, path) and path[len(path) - 1] is curr_node "
                      "and path[0] is self.partition.root"),
             ("greedy", "Greedy(path)"),
         ])
    loop("T_HOO.optTraverse", 1, props="C05", modifies=[],
         invariants=[
             ("kids", "children is curr_node.children and children is not None"),
             ("max", "maxchild.parent is curr_node and maxchild.depth == curr_node.depth + 1 "
                     "and maxchild in self.partition.node_list[maxchild.depth] "
                     "and all(children[j].b_value <= maxchild.b_value for j in range(_k + 1))"),
         ])

    # ---------------------------------------------------------------- expand / updateAllTree / API (C03 C04 C05 C06)
    fn("T_HOO.expand", N=N, inline=True, params={"parent": "ref:$N"})
    BCONS_ALL = ("Bcons", "all(Bcons(%s[h][k]) %s)" % (NL, ALLN), "C05")
    # the published expansion rule: the pulled leaf is split iff its depth is at most ceil((ln(n)/2 - ln(1/nu)) / ln(1/rho))
    RULE = ("rule", "iff(end.children is not None, "
                    "old(end.depth) <= real(ceil((ln(self.rounds) / 2 - ln(1 / self.nu)) / ln(1 / self.rho))))", "C06")
    AFTER = [
        ("credited", "all(Credited(path[k], reward) for k in range(len(path)))", "C04"),
        ("others", "all(implies(not (%s[h][k] in path), Untouched(%s[h][k])) "
                   "for h in range(old(self.partition.depth) + 1) for k in range(old(len(%s[h]))))" % (NL, NL, NL), "C04"),
        by_cases("formula", "UFormula_HOO(self, %s[h][k])" % NL, ALLN,
                 ["h <= old(self.partition.depth) and k < old(len(%s[h])) and %s[h][k] is old(%s[h][k])" % (NL, NL, NL),
                  "%s[h][k] in end.children" % NL], props="C05"),
        BCONS_ALL,
        ("kids-new", "implies(end.children is not None, all(fresh(end.children[j]) and NodeInit(end.children[j]) "
                     "for j in range(len(end.children))))", "C06"),
        ("only-here", "all(implies(%s[h][k] is not end, %s[h][k].children is old(%s[h][k].children)) "
                      "for h in range(old(self.partition.depth) + 1) for k in range(old(len(%s[h]))))" % (NL, NL, NL, NL), "C06 C03"),
        ("layers-append-only", "all(%s[h][k] is old(%s[h][k]) for h in range(old(self.partition.depth) + 1) "
                               "for k in range(old(len(%s[h]))))" % (NL, NL, NL), "C03 C04"),
    ]
    W_END = {"end": ("ref:$N", "path[len(path) - 1]")}
    W_END_SELF = {"end": ("ref:$N", "old(self.path[len(self.path) - 1])"), "path": ("list[ref:$N]", "old(self.path)")}

    def with_w(cl, w):
        out = []
        for c in cl:
            if isinstance(c, tuple):
                out.append((c[0], c[1], c[2], w))
            else:
                import copy
                c2 = copy.copy(c)
                c2.witness = w
                if w is not W_END:
                    c2.cases = None      # callers of updateAllTree get the un-cased clause from its contract
                out.append(c2)
        return out

    UPD_MOD = ["HOO_node.visited_times n where n in path", "HOO_node.mean_reward n where n in path",
               "list[real:reward] r where owner(r) in path and owner(r).rewards is r",
               "*HOO_node.u_value", "*HOO_node.b_value", "*HOO_node.mean_reward", "self.iteration",
               "path[len(path) - 1].children", "self.partition.depth", "list(self.partition.node_list)",
               "list(self.partition.node_list[path[len(path) - 1].depth + 1]) when path[len(path) - 1].depth < self.partition.depth"]
    fn("T_HOO.updateAllTree", N=N, props="C01 C03 C04 C05 C06", params={"path": "list[ref:$N]", "reward": "real"},
       requires=INV + [("path", "PathOK(self.partition, path)", "C04 C03"),
                       ("leaf", "path[len(path) - 1].children is None", "C03 C06"),
                       ("ranges2", "self.rho < 1", "C01")],
       modifies=UPD_MOD,
       ensures=INV + with_w(AFTER + [RULE], W_END))
    PULL_ENS = [
        ("path", "defined(self.path) and fresh(self.path) and PathOK(self.partition, self.path)", "C04 C05"),
        ("end", "self.path[0] is self.partition.root and self.path[len(self.path) - 1].children is None", "C03 C05 C06"),
        ("greedy", "Greedy(self.path)", "C05"),
        ("result", "result is self.path[len(self.path) - 1].c_point", "C01 C04"),
    ]
    fn("T_HOO.pull", N=N, props="C01 C04 C05 C15", params={"time": "int"}, returns="list[real]",
       requires=INV, modifies=["self.path"], ensures=INV + PULL_ENS)
    fn("T_HOO.get_last_point", N=N, props="C01 C04 C15", params={}, returns="list[real]",
       requires=INV, modifies=["self.path"], ensures=INV + PULL_ENS)
    fn("T_HOO.receive_reward", N=N, props="C01 C03 C04 C05 C06 C15", params={"time": "int", "reward": "real"},
       requires=INV + [("pulled", "defined(self.path) and PathOK(self.partition, self.path) "
                                  "and self.path[len(self.path) - 1].children is None", "C04"),
                       ("ranges2", "self.rho < 1", "C01")],
       modifies=[m.replace("path", "self.path") for m in UPD_MOD],
       ensures=INV + with_w(AFTER + [RULE], W_END_SELF))
    fn("T_HOO.__init__", N=N, props="C01 C03 C06",
       params={"nu": "real", "rho": "real", "rounds": "int", "domain": "list?[list[real]]", "partition": "cls?:Partition"},
       requires=[("ranges", "nu > 0 and 0 < rho and rho < 1 and rounds >= 1", "C01"),
                 ("box", "implies(domain is not None, Box(domain))", "C01")],
       raises={"ValueError": "domain is None or partition is None"},
       ensures=INV + [("root-split", "self.partition.depth == 1 and self.partition.root.children is not None", "C06"),
                      ("own", "fresh(self.partition) and self.partition.domain is domain", "C14")])

    # proof outline of updateAllTree: two strong cuts (everything needed later is restated; earlier quantified facts are dropped)
    def sub_end(cl):
        def r(t):
            return (t.replace("end.", "path[len(path) - 1].").replace("(end)", "(path[len(path) - 1])")
                    .replace(" is not end", " is not path[len(path) - 1]"))
        out = []
        for c in cl:
            if isinstance(c, tuple):
                out.append((c[0], r(c[1])) + tuple(c[2:3]))
            else:
                body, gens, cases = c.cases
                out.append(by_cases(c.label, r(body), r(gens), [r(x) for x in cases], props=" ".join(sorted(c.props))))
        return out
    SAME_TREE = [
        ("tree-same", "self.partition.depth == old(self.partition.depth) and all(%s[h] is old(%s[h]) and len(%s[h]) == old(len(%s[h])) "
                      "for h in range(self.partition.depth + 1))" % (NL, NL, NL, NL)),
        ("nodes-same", "all(%s[h][k] is old(%s[h][k]) and %s[h][k].children is old(%s[h][k].children) %s)" % (NL, NL, NL, NL, ALLN)),
        ("path", "PathOK(self.partition, path) and path[len(path) - 1].children is None and self.rho < 1"),
    ]
    def lab(c):
        return c[0] if isinstance(c, tuple) else c.label
    CARRY = [(c[0], c[1]) for c in INV] + sub_end([c for c in AFTER if lab(c) in ("credited", "others")]) + [
        ("formula", "all(UFormula_HOO(self, %s[h][k]) %s)" % (NL, ALLN))]
    reg.cut("T_HOO.updateAllTree", "call:updateUvalueTree#0", props="C01", strong=True, clauses=CARRY + SAME_TREE)
    reg.cut("T_HOO.updateAllTree", "if#0", props="C01", strong=True,
            clauses=list(INV) + sub_end([c for c in AFTER if lab(c) != "Bcons"] + [RULE]) + [
                ("decomp", "all((h <= old(self.partition.depth) and k < old(len(%s[h])) and %s[h][k] is old(%s[h][k])) "
                           "or (%s[h][k] in path[len(path) - 1].children) %s)" % (NL, NL, NL, NL, ALLN), "C03 C04 C05"),
                ("path", "PathOK(self.partition, path) and all(path[k] is old(path[k]) for k in range(len(path))) "
                         "and len(path) == old(len(path))", "C03 C04"),
                ("kids-u", "implies(path[len(path) - 1].children is not None, all(path[len(path) - 1].children[j].u_value == inf "
                           "and path[len(path) - 1].children[j].children is None "
                           "and path[len(path) - 1].children[j] in %s[path[len(path) - 1].children[j].depth] "
                           "for j in range(len(path[len(path) - 1].children))))" % NL, "C05 C06"),
            ])
