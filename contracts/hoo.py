"""T-HOO (C01, C03, C04, C05, C06).  The same structure is instantiated for HCT and VHCT in hct.py."""
from contracts.partition import treewf


def tree_preds(reg):
    pred = reg.pred
    pred("AllNodes_Evidence", "P", "all(Evidence(P.node_list[h][k]) for h in range(P.depth + 1) for k in range(len(P.node_list[h])))")
    pred("AllNodes_UInf", "P", "all(implies(P.node_list[h][k].visited_times == 0, P.node_list[h][k].u_value == inf) "
                               "for h in range(P.depth + 1) for k in range(len(P.node_list[h])))")
    # B = U at leaves, B = min(U, max over children of B) elsewhere
    pred("Bcons", "n", "(n.b_value == n.u_value) if n.children is None else (n.b_value == xmin(n.u_value, lmaxb(n.children)))")


def alg_inv(a, ranges):
    p = a + ".partition"
    return treewf(p, props="C03 C01") + [
        ("Inv.evidence", "AllNodes_Evidence(%s)" % p, "C04 C01"),
        ("Inv.uinf", "AllNodes_UInf(%s)" % p, "C05"),
        ("Inv.ranges", ranges.replace("self", a), "C01"),
    ]


def register(reg):
    fn, loop, pred = reg.fn, reg.loop, reg.pred
    tree_preds(reg)
    N = ["HOO_node"]
    INV = alg_inv("self", "self.rho > 0 and self.rounds >= 1 and self.nu > 0")

    # ---------------------------------------------------------------- updateBackwardTree (C05)
    fn("T_HOO.updateBackwardTree", N=N, props="C01 C05", params={},
       requires=treewf("self.partition", props="C03"),
       modifies=["*HOO_node.b_value"],
       ensures=[("Bcons", "all(Bcons(self.partition.node_list[h][k]) for h in range(0, self.partition.depth + 1) "
                          "for k in range(len(self.partition.node_list[h])))", "C05")])
    loop("T_HOO.updateBackwardTree", 0, props="C05", var="i",
         invariants=[
             ("deeper", "all(Bcons(self.partition.node_list[h][k]) for h in range(self.partition.depth + 2 - i, self.partition.depth + 1) "
                        "for k in range(len(self.partition.node_list[h])))"),
             ("nodes", "nodes is self.partition.node_list"),
         ])
    loop("T_HOO.updateBackwardTree", 1, props="C05",
         invariants=[
             ("deeper", "all(Bcons(self.partition.node_list[h][k]) for h in range(self.partition.depth + 2 - i, self.partition.depth + 1) "
                        "for k in range(len(self.partition.node_list[h])))"),
             ("prefix", "all(Bcons(layer[k]) for k in range(_k))"),
             ("layer", "layer is self.partition.node_list[self.partition.depth + 1 - i] and nodes is self.partition.node_list "
                       "and 1 <= i and i <= self.partition.depth + 1"),
         ])
    loop("T_HOO.updateBackwardTree", 2, props="C05",
         invariants=[("tempB", "tempB == lmaxb(children, _k)"),
                     ("same", "children is node.children and children is not None")])
